#!/bin/sh
# offline set-up: make sure hypothesis (and, for the thorough tier, atheris) are importable
DIR="$(cd "$(dirname "$0")" && pwd)"
PY="${VERIF_PYTHON:-/venv/bin/python}"
WH=/opt/veriftools/wheels
mkdir -p "$DIR/.deps" "$DIR/evidence" "$DIR/replays"
"$PY" -c "import hypothesis" 2>/dev/null || \
  "$PY" -m pip install --no-index --find-links "$WH" --target "$DIR/.deps" hypothesis || exit 1
PYTHONPATH="$DIR/.deps" "$PY" -c "import atheris" 2>/dev/null || \
  "$PY" -m pip install --no-index --find-links "$WH" --target "$DIR/.deps" atheris >/dev/null 2>&1 || \
  echo "note: atheris not installable; thorough tier falls back to Hypothesis only"
"$PY" -c "import sys; sys.path.insert(0, '/repo'); import clastic, werkzeug; print('setup ok: clastic', clastic.__file__)"
