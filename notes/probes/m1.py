import warnings; warnings.simplefilter('ignore')
import random, sys, itertools, json
from clastic import Application, Route, Middleware, Response
from clastic.errors import ErrorHandler

NAMES = list('abcde')
BUILTINS = ['request', '_application', '_route', '_dispatch_state']
TRACE = []

def mkfunc(name, params, is_mw, method=True):
    # params: list of (pname, has_default, kwonly)
    parts = ['self'] if method else []
    if is_mw: parts.append('next')
    pos = [p for p in params if not p[2]]
    kwo = [p for p in params if p[2]]
    # python requires defaults after non-defaults among positional
    pos = [p for p in pos if not p[1]] + [p for p in pos if p[1]]
    for p, d, k in pos: parts.append(p + ('=_D' if d else ''))
    if kwo:
        parts.append('*')
        for p, d, k in kwo: parts.append(p + ('=_D' if d else ''))
    src = 'def %s(%s):\n    return _body(%r, dict(locals()))\n' % (name, ', '.join(parts), name)
    return src

class D:  # default sentinel
    def __repr__(self): return 'DEFAULT'
_D = D()

def gen(rng):
    cfg = {}
    cfg['url'] = rng.sample(NAMES, rng.choice([0, 0, 1, 2]))
    rest = [n for n in NAMES if n not in cfg['url']]
    cfg['res'] = rng.sample(rest, rng.choice([0, 1, 2]))
    rest = [n for n in rest if n not in cfg['res']]
    mws = []
    avail_names = NAMES + BUILTINS + ['context']
    def params():
        k = rng.choice([0, 1, 1, 2, 3])
        ns = rng.sample(avail_names, k)
        return [(n, rng.random() < 0.35, rng.random() < 0.0) for n in ns]
    for i in range(rng.choice([0, 1, 2, 3])):
        mw = {'level': rng.choice(['app', 'route'])}
        for ph, pk in [('request', 'provides'), ('endpoint', 'endpoint_provides'), ('render', 'render_provides')]:
            if rng.random() < 0.5:
                mw[ph] = params()
            else:
                mw[ph] = None
            np_ = rng.choice([0, 0, 1, 2])
            pv = rng.sample(rest, min(np_, len(rest)))
            rest = [n for n in rest if n not in pv]
            mw[pk] = pv
        mws.append(mw)
    cfg['mws'] = mws
    cfg['ep'] = params()
    cfg['rn'] = params() if rng.random() < 0.7 else None
    return cfg

def model(cfg):
    """returns (ok_route, ok_null, cyclic)"""
    def route_ok(mws, url, with_ep=True):
        base = set(url) | set(cfg['res']) | set(BUILTINS)
        def req(ps): return [p for p, d, k in ps if not d]
        avail = set(base)
        for mw in mws:
            if mw['request'] is not None:
                if not set(req(mw['request'])) <= avail: return False
                avail |= set(mw['provides'])
        req_all = avail
        avail = set(req_all)
        for mw in mws:
            if mw['endpoint'] is not None:
                if not set(req(mw['endpoint'])) <= avail: return False
                avail |= set(mw['endpoint_provides'])
        ep = cfg['ep'] if with_ep else [('request', False, False), ('_application', False, False), ('_route', False, False), ('_dispatch_state', False, False)]
        if not set(req(ep)) <= avail: return False
        avail = set(req_all) | {'context'}
        for mw in mws:
            if mw['render'] is not None:
                if not set(req(mw['render'])) <= avail: return False
                avail |= set(mw['render_provides'])
        rn = cfg['rn'] if with_ep else None
        if rn is not None and not set(req(rn)) <= avail: return False
        if rn is None and False: pass
        return True
    app_mws = [m for m in cfg['mws'] if m['level'] == 'app']
    route_mws = [m for m in cfg['mws'] if m['level'] == 'route']
    ok_null = route_ok(app_mws, ['_ignored'], with_ep=False)
    ok_route = route_ok(app_mws + route_mws, cfg['url'])
    # cycle detection
    g = {}
    for mw in app_mws + route_mws:
        for ph, pk in [('request', 'provides'), ('endpoint', 'endpoint_provides'), ('render', 'render_provides')]:
            deps = [p for p, d, k in (mw[ph] or [])]
            for n in mw[pk]:
                g.setdefault(n, []).extend(deps)
    def cyc():
        color = {}
        def dfs(u):
            color[u] = 1
            for v in g.get(u, []):
                if color.get(v) == 1: return True
                if color.get(v) is None and v in g and dfs(v): return True
            color[u] = 2
            return False
        return any(color.get(u) is None and dfs(u) for u in list(g))
    return ok_route, ok_null, cyc()

def build(cfg):
    ns = {'_D': _D, '_body': None}
    def body(name, loc): 
        TRACE.append((name, loc)); 
    classes = []
    mw_objs = {'app': [], 'route': []}
    for i, mw in enumerate(cfg['mws']):
        src = 'class MW%d(Middleware):\n' % i
        src += '    provides = %r\n    endpoint_provides = %r\n    render_provides = %r\n' % (tuple(mw['provides']), tuple(mw['endpoint_provides']), tuple(mw['render_provides']))
        for ph, pk in [('request', 'provides'), ('endpoint', 'endpoint_provides'), ('render', 'render_provides')]:
            if mw[ph] is not None:
                f = mkfunc(ph, mw[ph], True)
                f = f.replace("return _body(%r, dict(locals()))" % ph, "_body('mw%d.%s', dict(locals())); return next(%s)" % (i, ph, ', '.join('%s=(%d, %r)' % (n, i, n) for n in mw[pk])))
                src += ''.join('    ' + l + '\n' for l in f.splitlines())
        env = {'Middleware': Middleware, '_D': _D, '_body': body}
        exec(src, env)
        mw_objs[mw['level']].append(env['MW%d' % i]())
    env = {'_D': _D, '_body': body, 'Response': Response}
    src = mkfunc('ep', cfg['ep'], False, method=False).replace("return _body('ep', dict(locals()))", "_body('ep', dict(locals())); return %s" % ("{'ctx': 1}" if cfg['rn'] is not None else "Response('ok')"))
    exec(src, env)
    rn = None
    if cfg['rn'] is not None:
        src = mkfunc('rn', cfg['rn'], False, method=False).replace("return _body('rn', dict(locals()))", "_body('rn', dict(locals())); return Response('ok')")
        exec(src, env); rn = env['rn']
    pattern = '/r' + ''.join('/<%s>' % u for u in cfg['url'])
    route = Route(pattern, env['ep'], rn, middlewares=mw_objs['route'])
    res = {n: ('res', n) for n in cfg['res']}
    app = Application([route], resources=res, middlewares=mw_objs['app'], error_handler=ErrorHandler(reraise_uncaught=True))
    return app, '/r' + ''.join('/v%s' % u for u in cfg['url'])

rng = random.Random(int(sys.argv[1]) if len(sys.argv) > 1 else 1)
N = int(sys.argv[2]) if len(sys.argv) > 2 else 3000
stats = {}
bad = 0
for i in range(N):
    cfg = gen(rng)
    ok_route, ok_null, cyclic = model(cfg)
    exp = ok_route and ok_null
    try:
        app, path = build(cfg)
        got = True; exc = None
    except NameError as e:
        got = False; exc = e
    except Exception as e:
        got = None; exc = e
    key = (exp, got if got is not None else type(exc).__name__, cyclic)
    stats[key] = stats.get(key, 0) + 1
    if got is None and not cyclic or (got is not None and got != exp and not cyclic):
        bad += 1
        if bad <= 5: print('MISMATCH', json.dumps(cfg), 'model', (ok_route, ok_null), 'got', got, repr(exc))
    if got:
        del TRACE[:]
        c = app.get_local_client()
        try:
            r = c.get(path); assert r.status_code == 200, r.status_code
            r = c.get('/nope'); assert r.status_code == 404
        except Exception as e:
            bad += 1
            if bad <= 5: print('REQFAIL', json.dumps(cfg), repr(e))
print(sorted(stats.items(), key=str), 'bad', bad)
