import warnings; warnings.simplefilter('ignore')
import sys, threading, time
from werkzeug.test import EnvironBuilder
from clastic import Application, Response, Middleware
class Tok(Middleware):
    provides = ('tok',)
    def request(self, next, request):
        return next(tok=request.args.get('t'))
def ep(name, tok, request): return Response('%s|%s|%s' % (name, tok, request.path))
app = Application([('/h/<name>', ep)], middlewares=[Tok()])

def interesting(fn): return fn.startswith('/repo/clastic/') or fn.startswith('<sinter generated')

class Sched:
    def __init__(self, n):
        self.go = [threading.Semaphore(0) for _ in range(n)]
        self.ctrl = threading.Semaphore(0)
        self.done = [False] * n
        self.steps = [0] * n
        self.results = [None] * n
    def tracer(self, i):
        def local(frame, event, arg):
            if event == 'line':
                self.steps[i] += 1
                self.ctrl.release(); self.go[i].acquire()
            return local
        def glob(frame, event, arg):
            if interesting(frame.f_code.co_filename): return local
            return None
        return glob
    def worker(self, i, fn):
        self.go[i].acquire()
        sys.settrace(self.tracer(i))
        try: self.results[i] = fn()
        finally:
            sys.settrace(None); self.done[i] = True; self.ctrl.release()
    def run(self, fns, schedule):
        ths = [threading.Thread(target=self.worker, args=(i, f)) for i, f in enumerate(fns)]
        for t in ths: t.start()
        # schedule: iterable of thread indices; fallback: run remaining in order
        it = iter(schedule)
        while not all(self.done):
            try: j = next(it)
            except StopIteration: j = self.done.index(False)
            if self.done[j]: continue
            self.go[j].release(); self.ctrl.acquire()
        for t in ths: t.join()
        return self.results

def req(path, qs):
    def f():
        env = EnvironBuilder(path=path, query_string=qs).get_environ()
        out = {}
        def sr(s, h, e=None): out['s'] = s
        body = b''.join(app(env, sr))
        return out['s'], body
    return f
s = Sched(1); r = s.run([req('/h/a', 't=1')], []); nA = s.steps[0]; print('alone', r, nA)
t0 = time.time(); bad = 0
for k in range(0, nA + 1):
    s = Sched(2)
    r = s.run([req('/h/a', 't=1'), req('/h/b', 't=2')], [0] * k + [1] * 10000)
    if r != [('200 OK', b'a|1|/h/a'), ('200 OK', b'b|2|/h/b')]: bad += 1
print('single-preemption runs', nA + 1, 'bad', bad, 'secs', time.time() - t0)
