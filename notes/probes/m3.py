import warnings; warnings.simplefilter('ignore')
import random, sys, json
sys.argv = sys.argv[:1] + ['0']  # make c05 import cheap
import importlib.util
spec = importlib.util.spec_from_file_location('c05', '/tmp/x/c05.py')
src = open('/tmp/x/c05.py').read().split("alphabet = ")[0]
ns = {}; exec(src, ns)
ref_match = ns['ref_match']
from werkzeug.test import EnvironBuilder
from clastic import Application, Route, Response
from clastic import errors
from clastic.route import normalize_path
PATTERNS = ['/x', '/x/', '/x/<a>', '/<a>', '/<a>/<b?>', '/z/<p*>', '/x/<n:int>', '/', '/y/<q+>/']
METHODS = [None, ['GET'], ['POST'], ['GET', 'POST'], ['put', 'delete'], ['HEAD']]
BEH = ['answer', 'raise403', 'ret404', 'nb403', 'nbret404', 'boom']
PATHS = ['/x', '/x/', '/x/1', '/x/a', '/z', '/', '/x/a/b', '/y/1/2/', '/y/1', '//x', '/y']
REQM = ['GET', 'HEAD', 'POST', 'PUT', 'DELETE', 'OPTIONS', 'get', 'FOO']
def mkep(i, beh):
    def ep():
        if beh == 'answer': return Response('route-%d' % i)
        if beh == 'raise403': raise errors.Forbidden()
        if beh == 'ret404': return errors.NotFound()
        if beh == 'nb403': raise errors.Forbidden(is_breaking=False)
        if beh == 'nbret404': return errors.NotFound(is_breaking=False)
        if beh == 'boom': raise ZeroDivisionError('boom')
    return ep
def model(table, mode, path, method):
    m = method.upper()
    path = '/' + path.lstrip('/')
    last_nb = None; allowed = set(); 
    for i, (pat, methods, beh) in enumerate(table):
        if not ref_match(pat, mode, path): continue
        ms = None
        if methods:
            ms = set(x.upper() for x in methods)
            if 'GET' in ms: ms.add('HEAD')
        if ms and m not in ms:
            allowed |= ms; continue
        if pat.endswith('/') and normalize_path(path, True) != path and mode == 'redirect':
            return ('redirect', None)
        if beh == 'answer': return (200, 'route-%d' % i)
        if beh == 'raise403': return (403, None)
        if beh == 'ret404': return (404, None)
        if beh == 'boom': return (500, None)
        if beh == 'nb403': last_nb = 403
        if beh == 'nbret404': last_nb = 404
    if last_nb: return (last_nb, None)
    if allowed: return (405, allowed)
    return (404, None)
rng = random.Random(int(sys.argv[1]) if len(sys.argv) > 1 else 1)
bad = 0; n = 0; kinds = {}
for t in range(3000):
    mode = rng.choice(['redirect', 'rewrite', 'strict'])
    table = [(rng.choice(PATTERNS), rng.choice(METHODS), rng.choice(BEH)) for _ in range(rng.randint(1, 4))]
    app = Application([Route(p, mkep(i, b), methods=ms) for i, (p, ms, b) in enumerate(table)], slash_mode=mode)
    for path in PATHS:
        for method in REQM:
            env = EnvironBuilder(path='/', method=method).get_environ(); env['PATH_INFO'] = path
            out = {}
            def sr(s, h, e=None): out['s'] = int(s[:3]); out['h'] = dict(h)
            body = b''.join(app(env, sr)); n += 1
            exp = model(table, mode, path, method)
            if exp[0] == 'redirect': ok = out['s'] in (301, 302, 307, 308)
            elif exp[0] == 200: ok = out['s'] == 200 and (body == exp[1].encode() or method.upper() == 'HEAD')
            else: ok = out['s'] == exp[0]
            kinds[exp[0]] = kinds.get(exp[0], 0) + 1
            if not ok:
                bad += 1
                if bad < 10: print('MISMATCH', mode, table, path, method, 'exp', exp, 'got', out['s'], body[:40])
print('n', n, 'bad', bad, kinds)
