import warnings; warnings.simplefilter('ignore')
from clastic import Application, Route, Middleware, Response, SubApplication
T = []
def mk(name, unique=True, reorderable=True):
    class M(Middleware):
        def __init__(s, tag): s.tag = tag
        def request(s, next): T.append('>' + s.tag); r = next(); T.append('<' + s.tag); return r
        def endpoint(s, next): T.append('e>' + s.tag); r = next(); T.append('e<' + s.tag); return r
        def render(s, next, context): T.append('r>' + s.tag); r = next(); T.append('r<' + s.tag); return r
    M.__name__ = name; M.unique = unique; M.reorderable = reorderable
    return M
A, B, C = mk('A'), mk('B'), mk('C', unique=False)
def ep(): T.append('EP'); return {'x': 1}
def rn(context): T.append('RN'); return Response('ok')
inner = Application([Route('/r', ep, rn, middlewares=[A('A-route'), C('C-route')])], middlewares=[B('B-inner'), A('A-inner'), C('C-inner')])
outer = Application([('/p', inner)], middlewares=[A('A-outer'), C('C-outer')])
outer.get_local_client().get('/p/r'); print(T); del T[:]
inner.get_local_client().get('/r'); print(T); del T[:]
NR = mk('NR', reorderable=False)
try:
    Application([('/p', Application([('/r', ep, rn)], middlewares=[NR('in')]))], middlewares=[NR('out')]); print('NR accepted')
except Exception as e: print('NR', type(e).__name__, e)
