import warnings; warnings.simplefilter('ignore')
from clastic import Application, Route, Response, SubApplication
from clastic.errors import ErrorHandler
def fac(tag):
    def factory(arg):
        def render(context): return Response('F%s:%s:%s' % (tag, arg, context))
        return render
    return factory
def ep(shared, only_in=None, only_mid=None): return 'shared=%s in=%s mid=%s' % (shared, only_in, only_mid)
for fin, fmid, fout, rb1, rb2 in [(1,1,1,False,False), (1,1,1,True,False), (1,1,1,False,True), (0,1,1,False,False), (0,0,1,False,False), (1,0,0,False,False), (0,1,0,False,False), (0,1,1,False,True), (0, 0, 0, False, False)]:
    inner = Application([('/r', ep, 'T')], resources={'shared': 'IN', 'only_in': 'oi'}, render_factory=fac('in') if fin else None)
    mid = Application([SubApplication('/m', inner, rebind_render=rb1)], resources={'shared': 'MID', 'only_mid': 'om'}, render_factory=fac('mid') if fmid else None)
    out = Application([SubApplication('/o', mid, rebind_render=rb2)], resources={'shared': 'OUT'}, render_factory=fac('out') if fout else None)
    def g(app, p): 
        r = app.get_local_client().get(p); return r.status_code, r.data[:70]
    print((fin, fmid, fout, rb1, rb2), g(out, '/o/m/r'), g(mid, '/m/r'), g(inner, '/r'))
# name only in two inner levels
inner = Application([('/r', lambda x: Response(x))], resources={'x': 'IN'})
mid = Application([('/m', inner)], resources={'x': 'MID'})
out = Application([('/o', mid)])
print('inner-two-levels', out.get_local_client().get('/o/m/r').data, mid.get_local_client().get('/m/r').data)
# error handler inheritance
class EH(ErrorHandler):
    def render_error(self, request, _error): 
        return Response('custom-%s' % _error.code, status=_error.code)
inner = Application([('/boom', lambda: 1/0)], error_handler=EH())
out = Application([('/o', inner)])
out2 = Application([('/o', Application([('/boom', lambda: 1/0)]))], error_handler=EH())
print(inner.get_local_client().get('/boom').data[:30], out.get_local_client().get('/o/boom').data[:30], out2.get_local_client().get('/o/boom').data[:30], out2.get_local_client().get('/o/nope').data[:30])
# slash inheritance
from clastic import S_STRICT, S_REWRITE, S_REDIRECT
inner = Application([('/b/', lambda: Response('b'))], slash_mode=S_STRICT)
for inh in [True, False]:
    out = Application([SubApplication('/o', inner, inherit_slashes=inh)], slash_mode=S_REWRITE)
    print('inherit', inh, out.get_local_client().get('/o/b').status_code, [r.slash_mode for r in out.routes])
# prefix forms
for pref in ['/', '/p', '/p/', '']:
    try:
        out = Application([(pref, Application([('/r', lambda: Response('r')), ('/', lambda: Response('root'))]))])
        print(repr(pref), [r.pattern for r in out.routes])
    except Exception as e: print(repr(pref), 'EXC', type(e).__name__, e)
