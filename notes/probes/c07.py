import warnings; warnings.simplefilter('ignore')
import random, sys
from urllib.parse import urlsplit, unquote, quote
from werkzeug.test import EnvironBuilder
from clastic import Application, Route, Response, SubApplication
from clastic.route import normalize_path
rng = random.Random(int(sys.argv[1]) if len(sys.argv) > 1 else 1)
SEGS = ['a', 'b1', 'x-y', 'é', 'c d', 'p.q', '~t', 'u_v']
QS = ['', 'q=1', 'a=1&b=2', 'x=%20y', 'k=%C3%A9', 'flag', 'a=b=c', 'r=%FF', 'z=a+b']
def call(app, path, qs, method):
    env = EnvironBuilder(path='/', method=method).get_environ()
    env['PATH_INFO'] = path.encode('utf8').decode('latin1'); env['QUERY_STRING'] = qs
    out = {}
    def sr(s, h, e=None): out['s'] = int(s[:3]); out['h'] = dict(h)
    body = b''.join(app(env, sr)); return out['s'], out['h'], body
bad = 0; n = 0; cls = {}
for t in range(4000):
    mode = rng.choice(['redirect', 'rewrite', 'strict'])
    route_mode = rng.choice(['redirect', 'rewrite', 'strict'])
    inherit = rng.random() < 0.7
    kind = rng.choice(['static', 'single', 'multi'])
    branch = rng.random() < 0.7
    pat = {'static': '/s/t', 'single': '/s/<v>', 'multi': '/s/<v+>'}[kind] + ('/' if branch else '')
    methods = rng.choice([None, ['GET'], ['POST']])
    seen = {}
    def ep(request, v=None): return Response(repr((request.path, v)))
    r = Route(pat, ep, methods=methods, slash_mode=route_mode)
    app = Application(slash_mode=mode); app.add(r, inherit_slashes=inherit)
    eff = mode if inherit else route_mode
    segs = {'static': ['s', 't'], 'single': ['s', rng.choice(SEGS)], 'multi': ['s'] + [rng.choice(SEGS) for _ in range(rng.randint(1, 3))]}[kind]
    canon = '/' + '/'.join(segs) + ('/' if branch else '')
    # mutate slashes
    form = rng.choice(['canon', 'noslash', 'extraslash', 'dbl-lead'])
    path = {'canon': canon, 'noslash': canon.rstrip('/'), 'extraslash': canon.rstrip('/') + '//', 'dbl-lead': '/' + canon}[form]
    qs = rng.choice(QS); method = rng.choice(['GET', 'POST', 'HEAD', 'PUT'])
    st, h, body = call(app, path, qs, method); n += 1
    seen_path = '/' + path.lstrip('/')
    admitted = (not methods) or method in (set(methods) | ({'HEAD'} if 'GET' in methods else set()))
    matches = (eff != 'strict') or seen_path == canon
    due = eff == 'redirect' and branch and admitted and seen_path != canon
    key = (eff, branch, form, 'due' if due else 'nodue'); cls[key] = cls.get(key, 0) + 1
    if due:
        ok = st in (301, 302, 303, 307, 308)
        if ok:
            u = urlsplit(h['Location'])
            ok = unquote(u.path) == canon and u.query == qs and u.netloc == 'localhost'
            if ok:
                st2, h2, body2 = call(app, unquote(u.path), u.query, method)
                ok = st2 == 200
        if not ok:
            bad += 1; 
            if bad < 8: print('BAD-REDIRECT', eff, pat, path, qs, method, st, h.get('Location'))
    else:
        exp = 200 if (matches and admitted) else (405 if matches else 404)
        if eff == 'strict' and not matches: exp = 404
        if st != exp:
            bad += 1
            if bad < 8: print('BAD-STATUS', eff, pat, repr(path), method, methods, 'exp', exp, 'got', st, h.get('Location'))
print('n', n, 'bad', bad); print(sorted(cls.items()))
