import itertools, re, sys
from clastic.route import Route, BoundRoute, InvalidPattern, S_STRICT, S_REDIRECT, S_REWRITE
from clastic import Application

class FakeApp:
    def __init__(self, mode): self.slash_mode = mode; self.resources = {}; self.middlewares = []; 
    class error_handler: render_error=None

def is_int(s):
    # hand scanner: [+-]?digits | spaces digits
    i = 0
    if s[:1] in '+-':
        i = 1
    else:
        while i < len(s) and s[i] == ' ': i += 1
    d = s[i:]
    return len(d) > 0 and all(c in '0123456789' for c in d)

def is_float(s):
    i = 0
    if s[:1] in '+-': i = 1
    else:
        while i < len(s) and s[i] == ' ': i += 1
    r = s[i:]
    m = r
    # mantissa
    j = 0
    while j < len(m) and m[j].isdigit() and m[j] in '0123456789': j += 1
    nd1 = j
    k = j
    frac = 0
    if k < len(m) and m[k] == '.':
        k += 1
        while k < len(m) and m[k] in '0123456789': k += 1; frac += 1
        if nd1 == 0 and frac == 0: return False
    elif nd1 == 0:
        return False
    if k < len(m) and m[k] in 'eE':
        k += 1
        if k < len(m) and m[k] in '+-': k += 1
        e0 = k
        while k < len(m) and m[k] in '0123456789': k += 1
        if k == e0: return False
    return k == len(m)

VALID = {'str': lambda s: True, 'int': is_int, 'float': is_float}
CONV = {'str': str, 'int': int, 'float': float}

def parse(pattern):
    els = []
    parts = pattern.split('/')[1:]
    trailing = pattern.endswith('/')
    if trailing: parts = parts[:-1]
    for p in parts:
        m = re.fullmatch(r'<([A-Za-z_]\w*)([?*+:]?)(\w*)>', p)
        if m:
            els.append(('b', m.group(1), m.group(2).replace(':', ''), m.group(3) or 'str'))
        else:
            els.append(('l', p))
    return els, trailing

def assignments(els, segs):
    # yields dict name->value
    if not els:
        if not segs: yield {}
        return
    e = els[0]
    if e[0] == 'l':
        if segs and segs[0] == e[1]:
            yield from assignments(els[1:], segs[1:])
        return
    _, name, op, typ = e
    lo, hi = {'': (1, 1), '?': (0, 1), '*': (0, len(segs)), '+': (1, len(segs))}[op]
    for n in range(hi, lo - 1, -1):
        if n > len(segs): continue
        take = segs[:n]
        if not all(VALID[typ](s) for s in take): continue
        for rest in assignments(els[1:], segs[n:]):
            if op in ('*', '+'): v = [CONV[typ](s) for s in take]
            elif n == 0: v = None
            else: v = CONV[typ](take[0])
            d = dict(rest); d[name] = v
            yield d

def ref_match(pattern, mode, path):
    els, trailing = parse(pattern)
    if not path.startswith('/'): return []
    if mode == S_STRICT:
        if '//' in path: return []
        body = path[1:]
        if trailing:
            if path == '/': segs = []; 
            elif not path.endswith('/'): return []
            else: segs = body[:-1].split('/')
        else:
            if path == '/': segs = []
            elif path.endswith('/'): return []
            else: segs = body.split('/')
        if '' in segs: return []
        cands = list(assignments(els, segs))
        # root special: path '/' has zero segs; pattern trailing status irrelevant?
        return cands
    segs = [s for s in path.split('/') if s]
    return list(assignments(els, segs))

def real_match(pattern, mode, path):
    r = Route(pattern, lambda: None, slash_mode=mode)
    br = BoundRoute(r, FakeApp(mode))
    return br.match_path(path)

alphabet = ['/', 'a', '1', '.', '-', '+', ' ', 'e', 'é']
patterns = ['/', '/a', '/a/', '/<x>', '/<x>/', '/<x?>', '/<x*>', '/<x+>', '/<x:int>', '/<x?int>', '/<x*int>', '/<x+int>', '/<x:float>', '/<x*float>',
            '/a/<x?>', '/a/<x?>/', '/<x?>/a', '/<x*>/a', '/<x*>/<y*>', '/<x?int>/<y*>', '/<x*int>/<y*>', '/<x*int>/<y+float>', '/a/<x*int>/a', '/<x+>/<y?int>/',
            '/<x*float>/<y?int>/<z*>']
import collections
diffs = collections.Counter(); ex = {}
N = int(sys.argv[1]) if len(sys.argv) > 1 else 5
total = 0
for pat in patterns:
  for mode in (S_STRICT, S_REDIRECT, S_REWRITE):
    r = Route(pat, lambda: None, slash_mode=mode)
    br = BoundRoute(r, FakeApp(mode))
    for L in range(0, N + 1):
        for tup in itertools.product(alphabet, repeat=L):
            path = '/' + ''.join(tup)
            total += 1
            real = br.match_path(path)
            ref = ref_match(pat, mode, path)
            if real is None and not ref: continue
            if real is not None and real in ref: continue
            kind = ('real-none' if real is None else ('ref-none' if not ref else 'value-diff'))
            diffs[(pat, mode, kind)] += 1
            ex.setdefault((pat, mode, kind), (path, real, ref[:2]))
print(total)
for k, v in sorted(diffs.items()):
    print(k, v, ex[k])
