import warnings; warnings.simplefilter('ignore')
import itertools, errno, os, builtins
from werkzeug.test import EnvironBuilder
from clastic import Application, StaticApplication
import clastic.static as cs
R = '/tmp/x/sroot/root'
sapp = StaticApplication([R, '/tmp/x/sroot/root2'])
app = Application([('/s', sapp)])
def call(path, headers=None):
    env = EnvironBuilder(path=path, headers=headers or {}).get_environ()
    out = {}
    def sr(s, h, e=None): out['s'] = s; out['h'] = dict(h)
    try:
        it = app(env, sr); body = b''.join(it); 
        if hasattr(it, 'close'): it.close()
        return out['s'][:3], body, out['h']
    except Exception as e:
        return 'EXC', repr(e), {}
segs = ['a.txt', 'sub', 'b.txt', '.', '..', '', '...', 'tmp', 'x', 'sroot', 'secret.txt', 'root', '..x', '..d', 'f', 'c.txt', 'noext']
seen = {}
n = 0
for L in range(0, 5):
    for t in itertools.product(segs, repeat=L):
        p = '/s/' + '/'.join(t)
        st, body, h = call(p); n += 1
        key = (st, body if st == '200' else None)
        seen.setdefault(key, []).append(p)
        if b'SECRET' in body or st not in ('200', '403', '404', '302'):
            print('BAD', p, st, body[:50])
print(n, {k: (len(v), v[:3]) for k, v in seen.items()})
# faults
import clastic.static
def with_fault(target, nth, err, path, headers=None):
    cnt = {'n': 0}
    orig = {'isfile': cs.isfile, 'getmtime': os.path.getmtime, 'getsize': os.path.getsize}
    def wrap(name, f):
        def g(*a, **kw):
            if name == target:
                cnt['n'] += 1
                if cnt['n'] == nth: raise OSError(err, os.strerror(err))
            return f(*a, **kw)
        return g
    class FObj:
        def __init__(s, f): s.f = f
        def read(s, *a):
            if target == 'read':
                cnt['n'] += 1
                if cnt['n'] == nth: raise OSError(err, 'read')
            return s.f.read(*a)
        def __getattr__(s, k): return getattr(s.f, k)
    def fopen(*a, **kw):
        if target == 'open':
            cnt['n'] += 1
            if cnt['n'] == nth: raise OSError(err, os.strerror(err))
        return FObj(builtins.open(*a, **kw))
    cs.isfile = wrap('isfile', orig['isfile']); os.path.getmtime = wrap('getmtime', orig['getmtime']); os.path.getsize = wrap('getsize', orig['getsize']); cs.open = fopen
    try:
        return call(path, headers)[:2], cnt['n']
    finally:
        cs.isfile = orig['isfile']; os.path.getmtime = orig['getmtime']; os.path.getsize = orig['getsize']; del cs.open
for path in ['/s/a.txt', '/s/noext', '/s/c.txt']:
    for target in ['isfile', 'open', 'getmtime', 'getsize', 'read']:
        for nth in [1, 2, 3]:
            for err in [errno.ENOENT, errno.EACCES, errno.EIO]:
                (st, body), cnt = with_fault(target, nth, err, path)
                if cnt >= nth and st not in ('403', '404'):
                    print('FAULT', path, target, nth, errno.errorcode[err], '->', st, body[:70])
st, body, h = call('/s/a.txt'); lm = h['Last-Modified']; print(h)
print('IMS', call('/s/a.txt', {'If-Modified-Since': lm})[:2])
(st, body), cnt = with_fault('getmtime', 1, errno.EIO, '/s/a.txt', {'If-Modified-Since': lm}); print('IMS fault', st, cnt)
