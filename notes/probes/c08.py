import warnings; warnings.simplefilter('ignore')
import itertools, sys
from werkzeug.test import EnvironBuilder
from clastic import Application, Response, Middleware, Route
from clastic import errors
from clastic.errors import ErrorHandler, ContextualErrorHandler

class BadStr(Exception):
    def __str__(self): raise RuntimeError('no str')
class BadRepr(Exception):
    def __repr__(self): raise RuntimeError('no repr')
    __str__ = __repr__
class Weird(Exception):
    code = 'abc'   # has a code attr but not an HTTPException
def exc_list():
    return [ValueError('é☃'), KeyError('k'), RuntimeError('x' * 200000), BadStr(), BadRepr(), Weird('w'), UnicodeDecodeError('utf8', b'\xff', 0, 1, 'bad'), StopIteration(), ZeroDivisionError(), OSError(5, 'io'), AssertionError(), RecursionError('deep'), MemoryError(), NotImplementedError(), TypeError('t'), SystemError('s'), ExceptionGroup('g', [ValueError(1)])]
http_classes = [getattr(errors, n) for n in errors.__all__]
def behaviours():
    for e in exc_list(): yield ('raise', e)
    for cls in http_classes:
        yield ('raise', cls()); yield ('return', cls()); yield ('raise', cls(is_breaking=False)); yield ('return', cls(is_breaking=False))
    for v in ['str', None, 3, {'a': 1}, [], b'bytes', object()]: yield ('return', v)
class BrokenRE(ErrorHandler):
    def render_error(self, request, _error): raise RuntimeError('broken render_error')
class OtherRE(ErrorHandler):
    def render_error(self, request, _error): return errors.ImATeapot()
handlers = {'default': lambda: None, 'debug': lambda: ContextualErrorHandler(), 'broken': BrokenRE, 'other': OtherRE}
positions = ['ep', 'rn', 'mw.request.before', 'mw.request.after', 'mw.endpoint.before', 'mw.render.before']
bad = 0; n = 0
for hname, hf in handlers.items():
  for pos in positions:
    for kind, val in behaviours():
        def act():
            if kind == 'raise': raise val
            return val
        class MW(Middleware):
            def request(self, next):
                if pos == 'mw.request.before': return act()
                r = next()
                if pos == 'mw.request.after': return act()
                return r
            def endpoint(self, next):
                if pos == 'mw.endpoint.before': return act()
                return next()
            def render(self, next, context):
                if pos == 'mw.render.before': return act()
                return next()
        def ep():
            if pos == 'ep': return act()
            return {'ctx': 1}
        def rn(context):
            if pos == 'rn': return act()
            return Response('rendered')
        try:
            app = Application([('/x', ep, rn), ('/ok', lambda: Response('fine'))], middlewares=[MW()], error_handler=hf())
        except Exception as e:
            print('CONSTRUCT', e); continue
        for acc in ['text/html', 'application/json', '*/*']:
            env = EnvironBuilder(path='/x', headers={'Accept': acc}).get_environ()
            out = {}
            def sr(s, h, e=None): out['s'] = s
            n += 1
            try:
                body = b''.join(app(env, sr)); st = int(out['s'][:3])
            except BaseException as e:
                bad += 1
                if bad < 15: print('ESCAPE', hname, pos, kind, type(val).__name__, acc, '->', type(e).__name__, str(e)[:80])
                continue
            exp = None
            if isinstance(val, errors.HTTPException): exp = val.code if hname != 'other' else 418
            elif kind == 'raise': exp = 500 if hname != 'other' else 418
            if exp is not None and st != exp:
                bad += 1
                if bad < 15: print('STATUS', hname, pos, kind, type(val).__name__, acc, st, 'expected', exp)
print('n', n, 'bad', bad)
