import warnings; warnings.simplefilter('ignore')
import json, types
from werkzeug.test import EnvironBuilder
from clastic import Application, Response
from clastic.middleware import cookie as cmod
from clastic.middleware.cookie import SignedCookieMiddleware, NEVER
import secure_cookie.cookie as scmod

class Clock:
    now = 1_000_000.0
clk = Clock()
faketime = types.SimpleNamespace(time=lambda: clk.now)
cmod.time = faketime
scmod.time = lambda: clk.now

def ep(cookie, request):
    ops = json.loads(request.args.get('ops', '[]'))
    before = dict(cookie)
    for op in ops:
        if op[0] == 'set': cookie[op[1]] = op[2]
        elif op[0] == 'del': cookie.pop(op[1], None)
        elif op[0] == 'clear': cookie.clear()
    return Response(json.dumps(before), mimetype='application/json')

def mkapp(expiry):
    return Application([('/', ep)], middlewares=[SignedCookieMiddleware(secret_key='k1', expiry=expiry)])

def call(app, ops=None, cookie=None):
    env = EnvironBuilder(path='/', query_string={'ops': json.dumps(ops or [])}).get_environ()
    if cookie is not None: env['HTTP_COOKIE'] = 'clastic_cookie=' + cookie
    out = {}
    def sr(s, h, e=None): out['s'] = s; out['h'] = h
    body = b''.join(app(env, sr))
    sc = [v for k, v in out['h'] if k == 'Set-Cookie']
    newc = None
    if sc:
        newc = sc[0].split(';', 1)[0].split('=', 1)[1]
    return out['s'][:3], body, newc, sc

app = mkapp(0)
st, body, c1, sc = call(app, [['set', 'a', {'x': [1, 2.5, 'é☃', None, True]}], ['set', 'k=&?%;"é ', 'v'], ['set', '', '']])
print(st, body, c1, sc)
st, body, c2, sc = call(app, [], c1); print('read back', st, body, c2)
st, body, c3, sc = call(app, [['del', 'a']], c1); print('after del', st, body, c3)
st, body, _, _ = call(app, [], c3); print('read', body)
# tamper classes
import base64
h, d = c1.split('?', 1)
for label, val in [('flip data', h + '?' + d[:-2] + ('A' if d[-2] != 'A' else 'B') + d[-1]), ('flip hash', ('A' if h[0] != 'A' else 'B') + h[1:] + '?' + d), ('hash+garbage', h + '!!' + '?' + d), ('trunc', c1[:-3]), ('swap', c3.split('?')[0] + '?' + d), ('nosep', h + d), ('nonascii', 'é?a=b'), ('quoted', '"' + c1 + '"')]:
    try:
        st, body, newc, _ = call(app, [], val); print(label, st, body[:60])
    except Exception as e: print(label, 'EXC', repr(e))
# expiry
app2 = mkapp(100)
st, body, e1, sc = call(app2, [['set', 'a', 1]]); print('expiry set-cookie', sc)
clk.now += 99; print('t+99', call(app2, [], e1)[1])
clk.now += 2; print('t+101', call(app2, [], e1)[1])
