"""M2 - reference URL pattern model, written from the pattern mini-language
documentation (docs/pattern.rst and the property text), not from route.py.
No `re` is used for matching paths."""

STRICT, REDIRECT, REWRITE = 'strict', 'redirect', 'rewrite'
MODES = (STRICT, REDIRECT, REWRITE)
DIGITS = '0123456789'
TYPES = ('str', 'int', 'float', 'unicode')
OPS = ('', ':', '?', '*', '+')
NAME_START = 'ABCDEFGHIJKLMNOPQRSTUVWXYZabcdefghijklmnopqrstuvwxyz_'
NAME_REST = NAME_START + DIGITS


class BadPattern(Exception):
    pass


def _strip_sign_or_spaces(s):
    # an optional sign, or leading blanks (Python's int()/float() accept both, not both at once)
    if s[:1] in ('+', '-'):
        return s[1:]
    return s.lstrip(' ')


def is_int(s):
    d = _strip_sign_or_spaces(s)
    return len(d) > 0 and all(c in DIGITS for c in d)


def is_float(s):
    m = _strip_sign_or_spaces(s)
    j = 0
    while j < len(m) and m[j] in DIGITS:
        j += 1
    nd = j
    k = j
    if k < len(m) and m[k] == '.':
        k += 1
        f0 = k
        while k < len(m) and m[k] in DIGITS:
            k += 1
        if nd == 0 and k == f0:
            return False
    elif nd == 0:
        return False
    if k < len(m) and m[k] in 'eE':
        k += 1
        if k < len(m) and m[k] in '+-':
            k += 1
        e0 = k
        while k < len(m) and m[k] in DIGITS:
            k += 1
        if k == e0:
            return False
    return k == len(m)


def regex_admits_but_not_literal(typ, s):
    """sign followed by blanks then a number: clastic's regex admits it, Python rejects it (D5)"""
    if typ not in ('int', 'float') or s[:1] not in ('+', '-'):
        return False
    rest = s[1:]
    if not rest.startswith(' '):
        return False
    rest = rest.lstrip(' ')
    return bool(rest) and rest[:1] not in '+-' and (is_int(rest) if typ == 'int' else is_float(rest))


VALID = {'str': lambda s: True, 'unicode': lambda s: True, 'int': is_int, 'float': is_float}
CONV = {'str': str, 'unicode': str, 'int': int, 'float': float}


def parse(pattern):
    """-> (elements, is_branch); elements: ('l', text) | ('b', name, op, type).  Raises BadPattern
    for the five documented rejection classes."""
    if not pattern.startswith('/'):
        raise BadPattern('no leading slash')
    if '//' in pattern:
        raise BadPattern('double slash')
    parts = pattern.split('/')[1:]
    branch = pattern.endswith('/')
    if branch:
        parts = parts[:-1]
    els, names = [], set()
    for p in parts:
        if p.startswith('<') and p.endswith('>') and len(p) > 2 and p[1] in NAME_START:
            body = p[1:-1]
            i = 1
            while i < len(body) and body[i] in NAME_REST:
                i += 1
            name = body[:i]
            j = i
            while j < len(body) and body[j] not in NAME_REST:
                j += 1
            op, typ = body[i:j], body[j:]
            if any(c not in NAME_REST for c in typ):
                raise BadPattern('junk in binding')
            if name in names:
                raise BadPattern('duplicate binding')
            if op not in OPS:
                raise BadPattern('unknown operator')
            if typ and typ not in TYPES:
                raise BadPattern('unknown type')
            names.add(name)
            els.append(('b', name, '' if op == ':' else op, typ or 'str'))
        else:
            els.append(('l', p))
    return els, branch


def assignments(els, segs):
    """every way of assigning the segments, in order, to the elements"""
    if not els:
        if not segs:
            yield {}
        return
    e = els[0]
    if e[0] == 'l':
        if segs and segs[0] == e[1]:
            for r in assignments(els[1:], segs[1:]):
                yield r
        return
    _, name, op, typ = e
    lo, hi = {'': (1, 1), '?': (0, 1), '*': (0, len(segs)), '+': (1, len(segs))}[op]
    ok = VALID[typ]
    for n in range(min(hi, len(segs)), lo - 1, -1):
        take = segs[:n]
        if not all(ok(s) for s in take):
            continue
        for rest in assignments(els[1:], segs[n:]):
            if op in ('*', '+'):
                v = [CONV[typ](s) for s in take]
            elif n == 0:
                v = None
            else:
                v = CONV[typ](take[0])
            d = dict(rest)
            d[name] = v
            yield d


def segments(els_branch, mode, path):
    """path -> list of segments under the slash mode, or None if the slashes alone rule it out"""
    els, branch = els_branch
    if not path.startswith('/'):
        return None
    if mode == STRICT:
        if path == '/':
            return []
        if '//' in path:
            return None
        if branch != path.endswith('/'):
            return None
        body = path[1:-1] if branch else path[1:]
        return body.split('/')
    return [s for s in path.split('/') if s]


def match(parsed, mode, path):
    """-> list of valid assignments (dicts); empty = no match"""
    segs = segments(parsed, mode, path)
    if segs is None:
        return []
    return list(assignments(parsed[0], segs))


def seg_range(els):
    lo = hi = 0
    for e in els:
        if e[0] == 'l' or e[2] == '':
            lo += 1
            hi += 1
        elif e[2] == '?':
            hi += 1
        elif e[2] == '*':
            hi += 99
        else:
            lo += 1
            hi += 99
    return lo, hi


def normalize(path, branch):
    segs = [s for s in path.split('/') if s]
    if not segs:
        return '/'
    return '/' + '/'.join(segs) + ('/' if branch else '')


def same_value(a, b):
    if type(a) is not type(b):
        return False
    if isinstance(a, list):
        return len(a) == len(b) and all(same_value(x, y) for x, y in zip(a, b))
    return a == b


def same_assignment(got, exp):
    return set(got) == set(exp) and all(same_value(got[k], exp[k]) for k in exp)
