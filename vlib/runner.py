"""Parent-side driver: shards, seeds, tiers, evidence, VIOLATION / KNOWN-FINDING lines.

    ./check CNN [--tier quick|thorough] [--replay FILE] [--jobs N]

Exit codes: 0 held / only known findings, 1 violation (VIOLATION line printed),
2 harness error (never a violation).
"""
import os, sys, json, time, hashlib, subprocess, shutil, tempfile, importlib

VERIF = os.path.dirname(os.path.dirname(os.path.abspath(__file__)))
PY = os.environ.get('VERIF_PYTHON', '/venv/bin/python')


def _jobs():
    try:
        return max(1, min(16, len(os.sched_getaffinity(0))))
    except Exception:
        return 8


def load_prop(pid):
    return importlib.import_module('props.' + pid.lower())


def case_hash(case):
    return hashlib.sha1(json.dumps(case, sort_keys=True, default=repr).encode()).hexdigest()[:16]


def write_replay(pid, viol):
    d = os.path.join(VERIF, 'replays')
    os.makedirs(d, exist_ok=True)
    h = case_hash(viol.get('case'))
    path = os.path.join(d, '%s-%s.json' % (pid, h))
    with open(path, 'w') as f:
        json.dump({'property': pid, 'sig': viol.get('sig'), 'message': viol.get('msg'),
                   'kind': viol.get('kind'), 'case': viol.get('case')}, f, indent=1,
                  sort_keys=True, default=repr)
    return os.path.relpath(path, VERIF)


def run_shards(pid, specs, jobs, rundir, budget_s):
    """Run each spec in a fresh interpreter; returns list of (spec, result|None, err)."""
    pending = list(enumerate(specs))
    running = []
    results = [None] * len(specs)
    t0 = time.time()
    while pending or running:
        while pending and len(running) < jobs:
            i, spec = pending.pop(0)
            sp = os.path.join(rundir, 'spec-%d.json' % i)
            op = os.path.join(rundir, 'out-%d.json' % i)
            with open(sp, 'w') as f:
                json.dump(spec, f)
            env = dict(os.environ)
            env['PYTHONHASHSEED'] = str(spec.get('hashseed', 0))
            env['VERIF_RUNDIR'] = rundir
            env['PYTHONPATH'] = VERIF + os.pathsep + env.get('PYTHONPATH', '')
            env.setdefault('MAHMOUD_CLASTIC_VERIF', '1')
            lp = open(os.path.join(rundir, 'log-%d.txt' % i), 'w')
            p = subprocess.Popen([PY, '-m', 'vlib.shard', pid, sp, op], cwd=VERIF, env=env,
                                 stdout=lp, stderr=subprocess.STDOUT)
            running.append((i, spec, p, op, lp))
        time.sleep(0.05)
        still = []
        for i, spec, p, op, lp in running:
            rc = p.poll()
            if rc is None:
                still.append((i, spec, p, op, lp))
                continue
            lp.close()
            res, err = None, None
            if os.path.exists(op):
                try:
                    res = json.load(open(op))
                except Exception as e:
                    err = 'unreadable shard output: %r' % e
            if res is None and err is None:
                log = open(os.path.join(rundir, 'log-%d.txt' % i)).read()[-3000:]
                err = 'shard %d exited %s without output\n%s' % (i, rc, log)
            results[i] = (spec, res, err)
        running = still
    return results


def main(argv=None):
    argv = list(sys.argv[1:] if argv is None else argv)
    if not argv:
        print(__doc__)
        return 2
    pid = argv.pop(0).upper()
    tier = os.environ.get('VERIF_TIER') or 'quick'
    replay = None
    jobs = _jobs()
    while argv:
        a = argv.pop(0)
        if a == '--tier':
            tier = argv.pop(0)
        elif a == '--replay':
            replay = argv.pop(0)
        elif a == '--jobs':
            jobs = int(argv.pop(0))
        else:
            print('unknown argument', a)
            return 2
    if tier not in ('quick', 'thorough'):
        tier = 'quick'
    seed = int(os.environ.get('VERIF_SEED', '1') or 1)
    sys.path.insert(0, VERIF)
    from vlib import findings
    known = findings.load(pid)

    rundir = tempfile.mkdtemp(prefix='run-%s-' % pid, dir=_scratch())
    try:
        if replay:
            return _replay(pid, replay, rundir)
        return _check(pid, tier, seed, jobs, rundir, known)
    finally:
        shutil.rmtree(rundir, ignore_errors=True)


def _scratch():
    d = os.path.join(VERIF, '.scratch')
    os.makedirs(d, exist_ok=True)
    return d


def _replay(pid, path, rundir):
    data = json.load(open(path))
    spec = {'mode': 'replay', 'case': data['case'], 'kind': data.get('kind'), 'hashseed': 0,
            'tier': 'quick', 'seed': 1}
    (spec_, res, err), = run_shards(pid, [spec], 1, rundir, None)
    if err:
        print('HARNESS-ERROR', err)
        return 2
    if res.get('error'):
        print('HARNESS-ERROR', res['error'])
        return 2
    if res['violations']:
        print('replay: still violated: %s' % res['violations'][0].get('msg'))
        print('VIOLATION property=%s replay=%s' % (pid, path))
        return 1
    if res.get('known'):
        for sig, n in sorted(res['known'].items()):
            print('KNOWN-FINDING: property=%s %s' % (pid, sig))
        return 0
    print('replay: property holds on this case')
    return 0


def _check(pid, tier, seed, jobs, rundir, known):
    t0 = time.time()
    mod = load_prop(pid)
    specs = mod.shards(tier, seed)
    for i, s in enumerate(specs):
        s.setdefault('tier', tier)
        s.setdefault('seed', seed)
        s.setdefault('shard', i)
        s.setdefault('hashseed', (0, 1, seed + i)[i % 3])
        s.setdefault('mode', 'run')
    # regression replays (saved shrunk cases) always run first, as one shard
    regdir = os.path.join(VERIF, 'regress', pid)
    reg_cases = []
    if os.path.isdir(regdir):
        for fn in sorted(os.listdir(regdir)):
            if fn.endswith('.json'):
                reg_cases.append(json.load(open(os.path.join(regdir, fn))))
    if reg_cases:
        specs.insert(0, {'mode': 'regress', 'cases': reg_cases, 'tier': tier, 'seed': seed,
                         'shard': -1, 'hashseed': 0})
    results = run_shards(pid, specs, jobs, rundir, None)

    evaluations = 0
    requests = 0
    nontrivial = set()
    nt_disjoint = 0
    samples = []
    classes = {}
    violations = []
    known_hits = {}
    notes = []
    errors = []
    exhaustive = None
    extra = {}
    for spec, res, err in results:
        if os.environ.get('VERIF_VERBOSE') and res:
            print('  shard %s %s: %.1fs, %d cases' % (spec.get('shard'), spec.get('part', ''), res.get('wall_s', 0), res.get('evaluations', 0)))
        if err:
            errors.append(err)
            continue
        if res.get('error'):
            errors.append('shard %s: %s' % (spec.get('shard'), res['error']))
            continue
        evaluations += res.get('evaluations', 0)
        requests += res.get('requests', 0)
        nontrivial.update(res.get('nontrivial', []))
        nt_disjoint += res.get('nontrivial_disjoint', 0)
        for s in res.get('samples', []):
            if len(samples) < 12:
                samples.append(s)
        for k, v in res.get('classes', {}).items():
            classes[k] = classes.get(k, 0) + v
        violations.extend(res.get('violations', []))
        for k, v in res.get('known', {}).items():
            known_hits[k] = known_hits.get(k, 0) + v
        notes.extend(res.get('notes', []))
        if 'exhaustive' in res:
            exhaustive = res['exhaustive'] if exhaustive is None else (exhaustive and res['exhaustive'])
        for k, v in res.get('extra', {}).items():
            if isinstance(v, (int, float)) and isinstance(extra.get(k, 0), (int, float)):
                extra[k] = extra.get(k, 0) + v
            else:
                extra[k] = v

    # de-duplicate violations by signature, keep the smallest case of each
    by_sig = {}
    for v in violations:
        k = v.get('sig') or v.get('msg')
        size = len(json.dumps(v.get('case'), default=repr))
        if k not in by_sig or size < by_sig[k][0]:
            by_sig[k] = (size, v)
    uniq = [v for _, v in sorted(by_sig.values(), key=lambda t: t[0])]

    wall = time.time() - t0
    info = getattr(mod, 'INFO', {})
    cov = {
        'evaluations': evaluations,
        'distinct_nontrivial': len(nontrivial) + nt_disjoint,
        'rule': info.get('rule', ''),
        'samples': samples,
        'classes': dict(sorted(classes.items())),
        'shards': len(specs),
    }
    if requests:
        cov['requests'] = requests
    if exhaustive is not None:
        cov['exhaustive'] = bool(exhaustive)
        cov['exhaustive_scope'] = info.get('exhaustive_scope', '')
    if known_hits:
        cov['known_findings_hit'] = known_hits
    if notes:
        cov['notes'] = sorted(set(notes))[:20]
    cov.update(extra)
    ev = {
        'property_id': pid, 'tier': tier, 'seed': seed,
        'level': info.get('level', 'exploration'),
        'coverage': cov,
        'assumptions': info.get('assumptions', []),
        'wall_s': round(wall, 2),
        'violations': len(uniq),
    }
    if errors:
        ev['harness_errors'] = errors[:5]
    evdir = os.environ.get('VERIF_EVIDENCE_DIR') or os.path.join(VERIF, 'evidence')
    os.makedirs(evdir, exist_ok=True)
    with open(os.path.join(evdir, pid + '.json'), 'w') as f:
        json.dump(ev, f, indent=1, sort_keys=True, default=repr)

    print('%s tier=%s seed=%d: %d cases, %d distinct non-trivial, %d requests, %.1fs, shards=%d'
          % (pid, tier, seed, evaluations, cov['distinct_nontrivial'], requests, wall, len(specs)))
    for sig in sorted(known_hits):
        desc = known.get(sig, '')
        print('KNOWN-FINDING: property=%s sig=%s %s (%d cases this run)' % (pid, sig, desc, known_hits[sig]))
    rc = 0
    for v in uniq:
        path = write_replay(pid, v)
        print('  %s: %s' % (v.get('sig'), (v.get('msg') or '')[:600]))
        print('VIOLATION property=%s replay=%s' % (pid, path))
        rc = 1
    if errors:
        for e in errors[:3]:
            print('HARNESS-ERROR', e[-2500:])
        if rc == 0:
            rc = 2
    return rc


if __name__ == '__main__':
    sys.exit(main())
