"""G1 runtime (builds clastic objects from plain-data configurations) and M1 (reference
dependency resolver + onion interpreter), written from the C01-C04 statements and
docs/application.rst / docs/middleware.rst - not from sinter.py.

Configuration (JSON-able):
  cfg = {'levels': [level, ...]            # outermost application first ... innermost last
         'route': {'res': [names], 'mws': [mw], 'url': [names], 'ep': sig, 'ep_kind': kind,
                   'rn': sig|None, 'rn_kind': kind, 'ep_returns': 'response'|'context', 'methods': None|[..]},
         'build': 'list'|'add'}
  level = {'res': [names], 'mws': [mw], 'prefix': '/p'}      (prefix used when embedded in the next outer level)
  mw    = {'tid': int, 'unique': bool, 'reorderable': bool, 'style': 'func'|'method',
           'provides': [..], 'endpoint_provides': [..], 'render_provides': [..],
           'request': sig|None, 'endpoint': sig|None, 'render': sig|None}
  sig   = [[name, 'pos'|'kw'|'posonly', has_default], ...]   (middleware functions get `next` first implicitly;
                                                               a sig may carry flags through a dict form, see norm_sig)
"""
import types

BUILTINS = ('request', '_application', '_route', '_dispatch_state')
RESERVED = BUILTINS + ('context', 'next')
PHASES = (('request', 'provides'), ('endpoint', 'endpoint_provides'), ('render', 'render_provides'))
NULL_EP_SIG = [[n, 'pos', False] for n in BUILTINS]
EP_KINDS = ('func', 'lambda', 'method', 'callable', 'static', 'static-inst', 'classm', 'classm-inst', 'decorated')


class Sent(object):
    """distinct, identity-compared sentinel"""
    __slots__ = ('label',)

    def __init__(self, label):
        self.label = label

    def __repr__(self):
        return '<%s>' % self.label


class Boom(Exception):
    pass


# ------------------------------------------------------------------ signatures

def norm_sig(sig):
    """order parameters the way Python requires; returns list of (name, kind, has_default)"""
    ps = [(p[0], p[1], bool(p[2])) for p in sig]
    if any(k == 'pos' and not d for _, k, d in ps):
        ps = [(n, 'pos' if (k == 'posonly' and d) else k, d) for n, k, d in ps]
    order = {('posonly', False): 0, ('posonly', True): 1, ('pos', False): 2, ('pos', True): 3}
    if any(k == 'posonly' and d for _, k, d in ps):
        pass  # then there is no pos-without-default (demoted above)
    pos = sorted([p for p in ps if p[1] != 'kw'], key=lambda p: order[(p[1], p[2])])
    kw = [p for p in ps if p[1] == 'kw']
    return pos + kw


def sig_src(sig, lead=()):
    """parameter list source text.  `lead` = leading plain parameters (self / next)"""
    ps = norm_sig(sig)
    parts = list(lead)
    posonly = [p for p in ps if p[1] == 'posonly']
    pos = [p for p in ps if p[1] == 'pos']
    kw = [p for p in ps if p[1] == 'kw']
    for n, k, d in posonly:
        parts.append(n + ('=_D[%r]' % n if d else ''))
    if posonly:
        parts.append('/')
    for n, k, d in pos:
        parts.append(n + ('=_D[%r]' % n if d else ''))
    if kw:
        parts.append('*')
        for n, k, d in kw:
            parts.append(n + ('=_D[%r]' % n if d else ''))
    return ', '.join(parts)


def names_of(sig):
    return [p[0] for p in sig]


def required_of(sig):
    return [p[0] for p in sig if not p[2]]


# ------------------------------------------------------------------ world (runtime recorder / interpreter)

class World(object):
    """Owns everything the generated functions do at request time."""

    def __init__(self):
        self.trace = []          # (event, fid, payload)
        self.reqno = 0
        self.beh = {}            # fid -> behaviour
        self.tokens = {}         # token -> object (per request)
        self.provided = {}       # (mwid, listname, name) -> Sent for the current request
        self.defaults = {}       # fid -> {name: Sent}
        self.fmeta = {}          # fid -> dict(kind='mw'|'ep'|'rn', mwid, phase, provides=[..], returns=..)
        self.resources = {}      # (levelkey, name) -> Sent
        from clastic import Response
        self.Response = Response

    def new_request(self):
        self.reqno += 1
        del self.trace[:]
        self.tokens.clear()
        self.provided.clear()

    def default_map(self, fid, sig):
        d = self.defaults.setdefault(fid, {})
        for n, k, has in sig:
            if has:
                d[n] = Sent('default:%s:%s' % (fid, n))
        return d

    def token(self, tok, obj):
        self.tokens[tok] = obj
        return obj

    flavour = 'response'

    def resp(self, tok):
        # every kind of "a Response": werkzeug Response, bare BaseResponse, a *returned* HTTPException
        if self.flavour == 'base':
            from werkzeug.wrappers import BaseResponse
            return self.token(tok, BaseResponse(tok))
        if self.flavour == 'http':
            from clastic import errors
            return self.token(tok, errors.ImATeapot(tok))
        return self.token(tok, self.Response(tok))

    def run(self, fid, nxt, args):
        meta = self.fmeta[fid]
        self.trace.append(('enter', fid, args))
        b = self.beh.get(fid, 'pass')
        try:
            if meta['kind'] == 'mw':
                ret = self._run_mw(fid, nxt, meta, b)
            elif meta['kind'] == 'ep':
                if b == 'raise':
                    raise self.token('exc:%s' % fid, Boom(fid))
                if meta['returns'] == 'context':
                    ret = self.token('ctx', {'ctx-of-request': self.reqno})
                else:
                    ret = self.resp('resp:%s' % fid)
            else:
                if b == 'raise':
                    raise self.token('exc:%s' % fid, Boom(fid))
                ret = self.resp('resp:%s' % fid)
        except Exception as e:
            self.trace.append(('raised', fid, e))
            raise
        self.trace.append(('return', fid, ret))
        return ret

    def _run_mw(self, fid, nxt, meta, b):
        if b == 'raise-before':
            raise self.token('exc:%s:before' % fid, Boom(fid + ':before'))
        if b == 'early-response':
            return self.resp('resp:early:%s' % fid)
        prov = {}
        for name in meta['provides']:
            v = Sent('prov:%s:%s:req%d' % (fid, name, self.reqno))
            self.provided[(fid, name)] = v
            prov[name] = v
        names = list(meta['provides'])
        style = meta.get('call', 'kw')
        try:
            # values may be handed to next() by keyword, positionally (declared order), or mixed
            if style == 'pos':
                ret = nxt(*[prov[n] for n in names])
            elif style == 'mixed' and names:
                ret = nxt(prov[names[0]], **dict((n, prov[n]) for n in names[1:]))
            else:
                ret = nxt(**prov)
        except Exception as e:
            self.trace.append(('saw-exc', fid, e))
            if b == 'swallow':
                return self.resp('resp:swallow:%s' % fid)
            raise
        self.trace.append(('saw-return', fid, ret))
        if b == 'raise-after':
            raise self.token('exc:%s:after' % fid, Boom(fid + ':after'))
        if b == 'replace-after':
            return self.resp('resp:replace:%s' % fid)
        return ret


def make_function(world, fid, sig, kind='func', is_mw=False, meta=None):
    """exec a callable with exactly this signature; kind selects how it is packaged"""
    world.fmeta[fid] = meta
    sig = norm_sig(sig)
    dmap = world.default_map(fid, sig)
    argdict = '{' + ', '.join('%r: %s' % (p[0], p[0]) for p in sig) + '}'
    nxt = 'next' if is_mw else 'None'
    lead = ['next'] if is_mw else []
    ns = {'_D': dmap, '_W': world, '_fid': fid}
    call = '_W.run(_fid, %s, %s)' % (nxt, argdict)
    if kind == 'func':
        exec('def f(%s):\n    return %s\n' % (sig_src(sig, lead), call), ns)
        return ns['f']
    if kind in ('kwnext', 'kwnext-method'):
        # a middleware function all of whose parameters - `next` first among them - are keyword-only
        allkw = [[p[0], 'kw', p[2]] for p in sig]
        params = ', '.join((['self'] if kind == 'kwnext-method' else []) + ['*', 'next'] + [n + ('=_D[%r]' % n if d else '') for n, k, d in allkw])
        if kind == 'kwnext':
            exec('def f(%s):\n    return %s\n' % (params, call), ns)
            return ns['f']
        exec('class C(object):\n    def f(%s):\n        return %s\n' % (params, call), ns)
        return ns['C']().f
    if kind == 'lambda':
        params = sig_src(sig, lead)
        exec('f = lambda %s: %s\n' % (params, call), ns)
        return ns['f']
    if kind in ('method', 'mw-method'):
        exec('class C(object):\n    def f(%s):\n        return %s\n' % (sig_src(sig, ['self'] + lead), call), ns)
        return ns['C']().f
    if kind == 'callable':
        exec('class C(object):\n    def __call__(%s):\n        return %s\n' % (sig_src(sig, ['self'] + lead), call), ns)
        return ns['C']()
    if kind in ('static', 'static-inst'):
        exec('class C(object):\n    @staticmethod\n    def f(%s):\n        return %s\n' % (sig_src(sig, lead), call), ns)
        return ns['C'].f if kind == 'static' else ns['C']().f
    if kind in ('classm', 'classm-inst'):
        exec('class C(object):\n    @classmethod\n    def f(%s):\n        return %s\n' % (sig_src(sig, ['cls'] + lead), call), ns)
        return ns['C'].f if kind == 'classm' else ns['C']().f
    if kind == 'decorated':
        from clastic.decorators import clastic_decorator
        import functools

        def deco(f):
            @functools.wraps(f)
            def g(*a, **kw):
                return f(*a, **kw)
            return g
        exec('def f(%s):\n    return %s\n' % (sig_src(sig, lead), call), ns)
        return clastic_decorator(deco)(ns['f'])
    raise ValueError(kind)


_MW_CLASSES = {}
_MW_BASE_FLAGS = {0: (True, True), 2: (True, True), 4: (False, True), 20: (True, True)}     # must agree with gen_config.TYPES


def mw_class(tid, unique, reorderable):
    # flags are a function of the type id in every generator (same tid <=> same class)
    from clastic import Middleware
    key = tid
    if key not in _MW_CLASSES:
        # odd type ids derive from the preceding even one: a subclass is a *different* middleware type
        base = Middleware
        if tid % 2 == 1 and (tid - 1) in _MW_BASE_FLAGS:
            base = mw_class(tid - 1, *_MW_BASE_FLAGS[tid - 1])
        # distinct types may carry the same class name (two packages each with a `Guard`): types 0 and 2, and 1 and 3, do
        cname = 'MW%s' % ('AB'[tid % 2] if tid < 4 else '%d%s%s' % (tid, 'u' if unique else 'n', '' if reorderable else 'x'))
        _MW_CLASSES[key] = type(cname, (base,), {'unique': unique, 'reorderable': reorderable})
    return _MW_CLASSES[key]


_SHARED = {}


def make_mw(world, mwid, mw):
    if mw.get('share'):
        # one instance of a non-unique type listed at several places of the stack
        key = (id(world), mw['tid'])
        if key in _SHARED:
            return _SHARED[key]
        mwid = 'SH%d' % mw['tid']
        if len(_SHARED) > 200:
            _SHARED.clear()
        inst = _make_mw(world, mwid, mw)
        _SHARED[key] = inst
        return inst
    return _make_mw(world, mwid, mw)


def _make_mw(world, mwid, mw):
    inst = mw_class(mw['tid'], mw.get('unique', True), mw.get('reorderable', True))()
    inst._mwid = mwid
    for phase, pl in PHASES:
        setattr(inst, pl, tuple(mw.get(pl) or ()))
        sig = mw.get(phase)
        if sig is None:
            continue
        fid = '%s.%s' % (mwid, phase)
        meta = {'kind': 'mw', 'mwid': mwid, 'phase': phase, 'provides': list(mw.get(pl) or ()),
                'call': mw.get('call', 'kw')}
        flags = mw.get('flags') or {}
        if flags.get(phase) == 'next-not-first':
            f = make_raw(world, fid, sig, meta, ['%s', 'next'])
        elif flags.get(phase) == 'no-next':
            f = make_raw(world, fid, sig, meta, [])
        else:
            kind_ = 'mw-method' if mw.get('style') == 'method' else 'func'
            if mw.get('kwnext') and not any(p[1] == 'posonly' for p in norm_sig(sig)):
                kind_ = 'kwnext-method' if kind_ == 'mw-method' else 'kwnext'
            f = make_function(world, fid, sig, kind_, True, meta)
        setattr(inst, phase, f)
    return inst


def make_raw(world, fid, sig, meta, lead_tmpl):
    """deliberately misdeclared middleware function (C04): `next` second or missing"""
    world.fmeta[fid] = meta
    sig = norm_sig(sig)
    dmap = world.default_map(fid, sig)
    ns = {'_D': dmap, '_W': world, '_fid': fid}
    ps = [p for p in sig]
    if lead_tmpl:
        first = ps[0][0] if ps and not ps[0][2] and ps[0][1] == 'pos' else 'zz_first'
        rest = [p for p in ps if p[0] != first]
        src = 'def f(%s):\n    return None\n' % sig_src(rest, [first, 'next'])
    else:
        src = 'def f(%s):\n    return None\n' % sig_src(ps, [])
    exec(src, ns)
    return ns['f']


class Built(object):
    pass


def level_key(i):
    return 'L%d' % i


def prefix_names(level):
    """URL bindings carried by an embedding prefix such as '/s/<pa>'"""
    import re as _re
    return _re.findall(r'<([A-Za-z_]\w*)>', level.get('prefix') or '')


def build(cfg, world=None, error_handler='reraise', stage_hook=None):
    """Constructs innermost -> outermost.  Returns Built(app, world, prefix, apps).  Construction errors
    propagate with attribute .stage set (index of the level being constructed)."""
    from clastic import Application, Route, SubApplication
    from clastic.errors import ErrorHandler
    w = world or World()
    rt = cfg['route']
    levels = cfg['levels']
    b = Built()
    b.world = w
    b.mw_objs = {}

    def mk_handler():
        if error_handler == 'reraise':
            return ErrorHandler(reraise_uncaught=True)
        return None
    stage = len(levels)  # route construction stage
    try:
        route_mws = []
        for j, mw in enumerate(rt.get('mws') or []):
            o = make_mw(w, 'R.m%d' % j, mw)
            b.mw_objs['R.m%d' % j] = o
            route_mws.append(o)
        ep = make_function(w, 'ep', rt['ep'], rt.get('ep_kind', 'func'), False,
                           {'kind': 'ep', 'returns': rt.get('ep_returns', 'response' if rt.get('rn') is None else 'context')})
        rn = None
        if rt.get('rn') is not None:
            rn = make_function(w, 'rn', rt['rn'], rt.get('rn_kind', 'func'), False, {'kind': 'rn'})
        pattern = '/r' + ''.join(url_binding(rt, u) for u in rt.get('url') or [])
        res = {}
        for n in rt.get('res') or []:
            res[n] = w.resources.setdefault(('R', n), Sent('res:R:%s' % n))
        route = Route(pattern, ep, rn, middlewares=route_mws, resources=res, methods=rt.get('methods'))
        b.route = route
        # the caller goes on using its own list (a growing stack for the next route): the route keeps what it was declared with
        stray = {'tid': 77, 'style': 'func', 'request': [], 'endpoint': None, 'render': None, 'unique': False, 'reorderable': True,
                 'provides': [], 'endpoint_provides': [], 'render_provides': []}
        route_mws.append(make_mw(w, 'STRAY.R', stray))
        res['stray_resource'] = Sent('leak:stray')
        entry = route
        prefix = ''
        apps = []
        rich = None
        if cfg.get('prebound'):
            # the same Route / inner application is first bound into an unrelated application that defines every name of the
            # alphabet as a resource: nothing of that binding may be visible in the configuration under test
            taken = set(rt.get('url') or []) | set(n for lv in levels for n in prefix_names(lv))
            rich = dict((n, Sent('leak:%s' % n)) for n in ('a', 'b', 'c', 'd', 'e') if n not in taken)
            try:
                Application([route], resources=rich)
                b.prebound = 1
            except Exception:
                b.prebound = 0
        for i in range(len(levels) - 1, -1, -1):
            stage = i
            lv = levels[i]
            mws = []
            for j, mw in enumerate(lv.get('mws') or []):
                mwid = '%s.m%d' % (level_key(i), j)
                o = make_mw(w, mwid, mw)
                b.mw_objs[mwid] = o
                mws.append(o)
            res = {}
            for n in lv.get('res') or []:
                res[n] = w.resources.setdefault((level_key(i), n), Sent('res:%s:%s' % (level_key(i), n)))
            # sibling routes with middlewares of their own, bound before / after the entry under test:
            # they must not influence its stack (each route's stack is the application's + its own)
            before, after = [], []
            for k, sib in enumerate(cfg.get('siblings') or []):
                if sib['level'] != i:
                    continue
                smws = []
                for j, mw in enumerate(sib['mws']):
                    smws.append(make_mw(w, 'S%d.m%d' % (k, j), mw))
                sep = make_function(w, 'S%d.ep' % k, [], 'func', False, {'kind': 'ep', 'returns': 'response'})
                sroute = Route('/sib%d' % k + ''.join('/<%s>' % u for u in sib.get('url') or []), sep, middlewares=smws)
                smws.append(make_mw(w, 'STRAY.S%d' % k, stray))
                (before if sib['pos'] == 'before' else after).append(sroute)
            if i == 0 and cfg.get('decoy') and (rt.get('url') or []):
                # a route bound *before* the one under test that matches the same paths but not the method: it is
                # skipped at request time; its URL bindings are named after resources of the route under test
                l0 = set(levels[0].get('res') or [])
                cands = [n for n in (list(rt.get('res') or []) + [n for lv in levels[1:] for n in (lv.get('res') or [])])
                         if n not in l0 and n not in (rt.get('url') or []) and n not in RESERVED]
                cands = list(dict.fromkeys(cands))
                names_ = [(cands[k] if k < len(cands) else 'zz%d' % k) for k in range(len(rt['url']))]
                from clastic import Response as _R
                ns_ = {'R': _R}
                exec('def decoy_ep(%s):\n    return R("decoy")\n' % ', '.join(names_), ns_)
                before.insert(0, Route(prefix + '/r' + ''.join('/<%s>' % n for n in names_), ns_['decoy_ep'], methods=['DELETE']))
            entries = before + [entry] + after
            if cfg.get('build') == 'add':
                app = Application(resources=res, middlewares=mws, error_handler=mk_handler())
                mws.append(make_mw(w, 'STRAY.%s' % level_key(i), stray))
                res['stray_resource'] = Sent('leak:stray')
                for e_ in entries:
                    app.add(e_)
            else:
                app = Application(entries, resources=res, middlewares=mws, error_handler=mk_handler())
            apps.insert(0, app)
            if i > 0:
                pfx = lv.get('prefix', '/s%d' % i)
                if rich is not None:
                    try:
                        Application([SubApplication('/elsewhere', app)], resources=rich)
                        b.prebound += 1
                    except Exception:
                        pass
                entry = SubApplication(pfx, app)
                prefix = pfx.rstrip('/') + prefix
    except Exception as e:
        e.stage = stage
        raise
    b.app = apps[0]
    b.main_index = None
    b.apps = apps
    b.prefix = prefix
    b.pattern = prefix + pattern
    return b


def url_binding(rt, name):
    """'/<a>', '/<a:int>', '/<a?float>' ... according to rt['url_types'] = {name: [type, op]}"""
    typ, op = (rt.get('url_types') or {}).get(name, ['', ''])
    return '/<%s%s%s>' % (name, op or (':' if typ else ''), typ)


def request_path(cfg, built, reqno):
    import re as _re
    rt = cfg['route']
    segs, values = [], {}
    for u in rt.get('url') or []:
        typ = (rt.get('url_types') or {}).get(u, ['', ''])[0]
        if typ == 'int':
            segs.append(str(reqno - 1))             # the first request carries 0
            values[u] = reqno - 1
        elif typ == 'float':
            segs.append('%d.0' % (reqno - 1))
            values[u] = float(reqno - 1)
        else:
            segs.append('u-%s-%d' % (u, reqno))
            values[u] = segs[-1]
    pnames = _re.findall(r'<([A-Za-z_]\w*)>', built.prefix)
    prefix = built.prefix
    for n in pnames:
        values[n] = 'u-%s-%d' % (n, reqno)
        prefix = prefix.replace('<%s>' % n, values[n])
    return prefix + '/r' + ''.join('/' + s for s in segs), values


# ------------------------------------------------------------------ M1: the reference model

class Reject(Exception):
    def __init__(self, kind, why, stage=None):
        Exception.__init__(self, '%s: %s' % (kind, why))
        self.kind, self.why, self.stage = kind, why, stage


EXC_FOR = {'unsat': (NameError,), 'conflict': (NameError,), 'reserved': (NameError,),
           'next-misuse': (NameError, TypeError), 'next-not-first': (TypeError, IndexError, NameError),
           'dup-nonreorderable': (ValueError,)}


def merge(outer, inner):
    """outer list first, then inner; a unique type already present is kept once, at its outermost position"""
    merged = list(outer)
    for mw in inner:
        if mw.get('unique', True) and any(m['tid'] == mw['tid'] for m in merged):
            if mw.get('reorderable', True):
                continue
            raise Reject('dup-nonreorderable', 'type %s twice' % mw['tid'])
        merged.append(mw)
    return merged


def tag(cfg):
    """annotate every middleware dict with its id (copying)"""
    out = {'levels': [], 'route': dict(cfg['route']), 'build': cfg.get('build')}
    for i, lv in enumerate(cfg['levels']):
        l2 = dict(lv)
        l2['mws'] = [dict(m, _id=('SH%d' % m['tid']) if m.get('share') else '%s.m%d' % (level_key(i), j)) for j, m in enumerate(lv.get('mws') or [])]
        out['levels'].append(l2)
    out['route']['mws'] = [dict(m, _id=('SH%d' % m['tid']) if m.get('share') else 'R.m%d' % j) for j, m in enumerate(cfg['route'].get('mws') or [])]
    return out


def check_conflicts(mws, url, resources):
    """every name must have at most one offerer"""
    offer = {}

    def add(name, src):
        offer.setdefault(name, []).append(src)
    for n in url:
        add(n, 'url')
    for n in RESERVED:
        add(n, 'builtin')
    for n in set(resources):
        add(n, 'resource')
    for mw in mws:
        for _, pl in PHASES:
            for n in mw.get(pl) or ():
                add(n, mw.get('_id', 'mw'))
    bad = sorted(n for n, s in offer.items() if len(s) > 1)
    if bad:
        kinds = set()
        for n in bad:
            kinds.add('reserved' if n in RESERVED else 'conflict')
        raise Reject('reserved' if kinds == {'reserved'} else 'conflict', 'names offered twice: %r' % bad)


def check_mw_shapes(mws):
    for mw in mws:
        flags = mw.get('flags') or {}
        for phase, _ in PHASES:
            if mw.get(phase) is not None and flags.get(phase) in ('next-not-first', 'no-next'):
                raise Reject('next-not-first', '%s.%s' % (mw.get('_id'), phase))
            if mw.get(phase) is not None and 'next' in names_of(mw[phase]):
                raise Reject('next-not-first', '%s.%s takes next twice' % (mw.get('_id'), phase))


def availability(mws, url, resources):
    """-> dict fid -> (available-names set), plus 'ep' and 'rn'.  fid = '<mwid>.<phase>'"""
    base = set(url) | set(resources) | set(BUILTINS)
    av = {}
    cur = set(base)
    for mw in mws:
        if mw.get('request') is not None:
            av['%s.request' % mw['_id']] = set(cur)
            cur |= set(mw.get('provides') or ())
    req_all = set(cur)
    cur = set(req_all)
    for mw in mws:
        if mw.get('endpoint') is not None:
            av['%s.endpoint' % mw['_id']] = set(cur)
            cur |= set(mw.get('endpoint_provides') or ())
    av['ep'] = set(cur)
    cur = set(req_all) | {'context'}
    for mw in mws:
        if mw.get('render') is not None:
            av['%s.render' % mw['_id']] = set(cur)
            cur |= set(mw.get('render_provides') or ())
    av['rn'] = set(cur)
    return av


def check_route(mws, url, resources, ep_sig, rn_sig):
    """raises Reject if a route with this merged stack cannot be bound"""
    check_mw_shapes(mws)
    check_conflicts(mws, url, resources)
    if 'next' in names_of(ep_sig):
        raise Reject('next-misuse', 'endpoint takes next')
    if rn_sig is not None and 'next' in names_of(rn_sig):
        raise Reject('next-misuse', 'render takes next')
    av = availability(mws, url, resources)
    missing = []
    for mw in mws:
        for phase, _ in PHASES:
            sig = mw.get(phase)
            if sig is None:
                continue
            fid = '%s.%s' % (mw['_id'], phase)
            for n in required_of(sig):
                if n not in av[fid]:
                    missing.append((fid, n))
    for n in required_of(ep_sig):
        if n not in av['ep']:
            missing.append(('ep', n))
    if rn_sig is not None:
        for n in required_of(rn_sig):
            if n not in av['rn']:
                missing.append(('rn', n))
    if missing:
        r = Reject('unsat', 'unsatisfiable: %r' % missing[:4])
        r.missing = missing
        raise r
    return av


def is_cyclic(mws, ep_sig):
    """provided names depending on each other through the providers' parameter lists (own DFS)"""
    g = {}
    for mw in mws:
        for phase, pl in PHASES:
            deps = names_of(mw.get(phase) or [])
            for n in mw.get(pl) or ():
                g.setdefault(n, []).extend(deps)
    color = {}

    def dfs(u):
        color[u] = 1
        for v in g.get(u, ()):
            if color.get(v) == 1:
                return True
            if color.get(v) is None and v in g and dfs(v):
                return True
        color[u] = 2
        return False
    return any(color.get(u) is None and dfs(u) for u in list(g))


def sibling_for(cfg):
    """a valid sibling route (bound before the entry under test, innermost application) whose own middleware requires the
    sibling's URL binding and provides a name nobody else offers: it must not change whether the entry under test is accepted"""
    offered = set(RESERVED)
    for lv in cfg['levels']:
        offered |= set(lv.get('res') or [])
    offered |= set(cfg['route'].get('res') or []) | set(cfg['route'].get('url') or [])
    for mw in all_mws(cfg):
        for _, pl in PHASES:
            offered |= set(mw.get(pl) or ())
    free = [n for n in ('a', 'b', 'c', 'd', 'e') if n not in offered]
    mw = {'tid': 5, 'unique': False, 'reorderable': True, 'style': 'func', 'provides': free[:1], 'endpoint_provides': [], 'render_provides': [],
          'request': [['zq_sx', 'pos', False]], 'endpoint': None, 'render': None}
    return {'level': len(cfg['levels']) - 1, 'pos': 'before', 'url': ['zq_sx'], 'mws': [mw]}


def has_posonly(cfg):
    def s(sig):
        return any(p[1] == 'posonly' for p in norm_sig(sig or []))
    rt = cfg['route']
    if s(rt['ep']) or s(rt.get('rn')):
        return True
    for mw in all_mws(cfg):
        if any(s(mw.get(ph)) for ph, _ in PHASES):
            return True
    return False


def all_mws(cfg):
    for lv in cfg['levels']:
        for mw in lv.get('mws') or []:
            yield mw
    for mw in cfg['route'].get('mws') or []:
        yield mw


def predict(cfg):
    """Walks the construction sequence (innermost application first).  Returns a Plan or raises Reject
    (with .stage = level index being constructed, len(levels) for the Route itself)."""
    t = tag(cfg)
    rt = t['route']
    levels = t['levels']
    n = len(levels)
    stack = list(rt['mws'])
    # duplicates inside the route's own list are merged like any inner list
    stack = merge([], stack)
    resources = {}
    for name in rt.get('res') or []:
        resources[name] = ('R', name)
    plan = None
    cyclic = False
    url_acc = list(rt.get('url') or [])
    for i in range(n - 1, -1, -1):
        lv = levels[i]
        if i < n - 1:
            url_acc = url_acc + prefix_names(levels[i + 1])     # the prefix under which level i+1 was embedded into level i
        try:
            # the application's own list and resources are checked on their own first
            for name in lv.get('res') or []:
                if name in RESERVED:
                    raise Reject('reserved', 'resource %r' % name)
            check_mw_shapes(lv['mws'])
            check_conflicts(lv['mws'], [], [])
            cyc_null = is_cyclic(lv['mws'], NULL_EP_SIG)
            try:
                check_route(lv['mws'], ['_ignored'], lv.get('res') or [], NULL_EP_SIG, None)
            except Reject as r:
                r.cyclic = cyc_null or cyclic
                raise
            cyclic = cyclic or cyc_null
            stack = merge(lv['mws'], stack)
            for name in lv.get('res') or []:
                resources.setdefault(name, (level_key(i), name))
            cyc = is_cyclic(stack, rt['ep'])
            try:
                av = check_route(stack, url_acc, list(resources), rt['ep'], rt.get('rn'))
            except Reject as r:
                r.cyclic = cyc or cyclic
                raise
            cyclic = cyclic or cyc
        except Reject as r:
            r.stage = i
            if not hasattr(r, 'cyclic'):
                r.cyclic = cyclic
            raise
    plan = Plan()
    plan.cfg = t
    plan.cyclic = cyclic
    # request-time resource precedence: the serving (outermost) application wins, else the unique definer
    res_owner = {}
    for name in resources:
        owners = [level_key(i) for i, lv in enumerate(levels) if name in (lv.get('res') or [])]
        if name in (rt.get('res') or []):
            owners.append('R')
        res_owner[name] = owners
    plan.route = View(stack, av, url_acc, res_owner, rt, False)
    l0 = levels[0]
    null_owner = dict((name, ['L0']) for name in (l0.get('res') or []))
    plan.null = View(list(l0['mws']), availability(l0['mws'], ['_ignored'], l0.get('res') or []), ['_ignored'],
                     null_owner, {'ep': NULL_EP_SIG, 'rn': None}, True)
    return plan


class Plan(object):
    """what M1 expects of an accepted configuration: .route and .null (catch-all) views"""

    def view(self, null=False):
        return self.null if null else self.route


class View(object):
    def __init__(self, stack, av, url, res_owner, rt, is_null):
        self.stack, self.av, self.url, self.res_owner, self.rt, self.is_null = stack, av, url, res_owner, rt, is_null

    def chain(self):
        """ordered fids per phase"""
        out = {}
        for phase, _ in PHASES:
            out[phase] = ['%s.%s' % (mw['_id'], phase) for mw in self.stack if mw.get(phase) is not None]
        return out

    def sig_of(self, fid):
        if fid == 'ep':
            return self.rt['ep']
        if fid == 'rn':
            return self.rt['rn']
        mwid, phase = fid.rsplit('.', 1)
        for mw in self.stack:
            if mw['_id'] == mwid:
                return mw[phase]
        raise KeyError(fid)

    def provider_of(self, name, fid):
        """fid of the middleware function whose next() call supplies `name` to function `fid`"""
        phase = fid.rsplit('.', 1)[1] if '.' in fid else {'ep': 'endpoint', 'rn': 'render'}[fid]
        for mw in self.stack:
            if mw.get('request') is not None and name in (mw.get('provides') or ()):
                return '%s.request' % mw['_id']
            if phase == 'endpoint' and mw.get('endpoint') is not None and name in (mw.get('endpoint_provides') or ()):
                return '%s.endpoint' % mw['_id']
            if phase == 'render' and mw.get('render') is not None and name in (mw.get('render_provides') or ()):
                return '%s.render' % mw['_id']
        return None

    def source(self, fid, name):
        """('url'|'resource'|'builtin'|'provided'|'default', detail)"""
        if name not in self.av[fid]:
            return ('default', None)
        if name in self.url:
            return ('url', name)
        if name in self.res_owner:
            owners = self.res_owner[name]
            return ('resource', 'L0' if 'L0' in owners else owners[0])
        if name in BUILTINS or name == 'context':
            return ('builtin', name)
        p = self.provider_of(name, fid)
        if p:
            return ('provided', p)
        return ('default', None)

    # ---- onion interpreter
    def simulate(self, beh, ep_returns='response', has_render=False):
        """expected event list [(event, fid[, token])] and outcome ('ret'|'exc', token)"""
        ch = self.chain()
        ev = []
        is_null = self.is_null

        def run_mw_chain(fids, final):
            def at(i):
                if i == len(fids):
                    return final()
                fid = fids[i]
                ev.append(('enter', fid))
                b = beh.get(fid, 'pass')
                if b == 'raise-before':
                    return ('exc', 'exc:%s:before' % fid)
                if b == 'early-response':
                    return ('ret', 'resp:early:%s' % fid)
                kind, tok = at(i + 1)
                if kind == 'exc':
                    ev.append(('saw-exc', fid, tok))
                    if b == 'swallow':
                        return ('ret', 'resp:swallow:%s' % fid)
                    return ('exc', tok)
                ev.append(('saw-return', fid, tok))
                if b == 'raise-after':
                    return ('exc', 'exc:%s:after' % fid)
                if b == 'replace-after':
                    return ('ret', 'resp:replace:%s' % fid)
                return ('ret', tok)
            return at(0)

        def endpoint():
            if is_null:
                return ('ret', 'resp:null')     # clastic's own catch-all endpoint: an error Response
            ev.append(('enter', 'ep'))
            if beh.get('ep') == 'raise':
                return ('exc', 'exc:ep')
            return ('ret', 'ctx' if ep_returns == 'context' else 'resp:ep')

        def render():
            ev.append(('enter', 'rn'))
            if beh.get('rn') == 'raise':
                return ('exc', 'exc:rn')
            return ('ret', 'resp:rn')

        def inner():
            kind, tok = run_mw_chain(ch['endpoint'], endpoint)
            if kind == 'exc':
                return kind, tok
            if tok != 'ctx':
                return kind, tok          # a Response: render side is skipped entirely
            if not has_render:
                # no renderer: the render middlewares run around the identity render; unless one of them answers, the
                # context itself comes back (-> "expected Response", a 500 by C08)
                return run_mw_chain(ch['render'], lambda: ('ret', 'ctx'))
            return run_mw_chain(ch['render'], render)
        outcome = run_mw_chain(ch['request'], inner)
        return ev, outcome
