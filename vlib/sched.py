"""Deterministic thread scheduler: every `line` event in a frame of clastic (or of its generated chain code) is a
yield point where the running thread parks and the controller decides who runs next.  Exactly one thread runs at a
time, so a run is a pure function of the schedule."""
import os, sys, threading

CLASTIC_DIR = os.path.join(os.path.abspath(os.environ.get('CLASTIC_ROOT', '/repo')), 'clastic') + os.sep
TESTS_DIR = CLASTIC_DIR + 'tests' + os.sep


def interesting(filename):
    return filename.startswith('<sinter generated') or (filename.startswith(CLASTIC_DIR) and not filename.startswith(TESTS_DIR))


class Deadlock(Exception):
    pass


def _locked():
    import _thread
    l = _thread.allocate_lock()
    l.acquire()
    return l


def _release(l):
    try:
        l.release()
    except RuntimeError:
        pass


class Sched(object):
    def __init__(self, n, timeout=10.0):
        self.n = n
        # strict hand-off (one release per acquire), so plain locks created in the locked state do as binary semaphores
        self.go = [_locked() for _ in range(n)]
        self.ctrl = _locked()
        self.done = [False] * n
        self.steps = [0] * n
        self.results = [None] * n
        self.errors = [None] * n
        self.timeout = timeout
        self.where = [None] * n
        self.abort = False

    def _tracer(self, i):
        def local(frame, event, arg):
            if event == 'line' and not self.abort:
                self.steps[i] += 1
                self.budget[i] -= 1
                if self.budget[i] <= 0:
                    # out of granted steps: park here until the controller grants more
                    self.where[i] = (os.path.basename(frame.f_code.co_filename), frame.f_code.co_name, frame.f_lineno)
                    self.ctrl.release()
                    self.go[i].acquire()
            return local

        def glob(frame, event, arg):
            if interesting(frame.f_code.co_filename):
                return local
            return None
        return glob

    def _worker(self, i, fn):
        self.go[i].acquire()
        sys.settrace(self._tracer(i))
        try:
            self.results[i] = fn()
        except BaseException as e:     # recorded, compared by the caller
            self.errors[i] = e
        finally:
            sys.settrace(None)
            self.done[i] = True
            self.ctrl.release()

    def run(self, fns, schedule):
        """schedule: iterable of (thread index, number of line-steps granted).  When it is exhausted the remaining
        threads run to completion in index order.  A thread only parks when its grant is used up, so the run is the
        same pure function of the schedule as with a hand-off at every line, at a fraction of the cost.
        Returns (results, errors)."""
        INF = 1 << 60
        self.budget = [0] * self.n
        ths = [threading.Thread(target=self._worker, args=(i, f), daemon=True) for i, f in enumerate(fns)]
        for t in ths:
            t.start()
        it = iter(schedule)
        try:
            while not all(self.done):
                try:
                    j, grant = next(it)
                except StopIteration:
                    j, grant = self.done.index(False), INF
                if j >= self.n or self.done[j] or grant <= 0:
                    continue
                self.budget[j] = grant
                self.go[j].release()
                if not self.ctrl.acquire(timeout=self.timeout):
                    raise Deadlock('thread %d made no progress for %.0fs at %r' % (j, self.timeout, self.where[j]))
        finally:
            if not all(self.done):
                self.abort = True
                for g in self.go:
                    _release(g)
            for t in ths:
                t.join(timeout=2.0)
        return self.results, self.errors
