"""Coverage-guided byte-level campaign (atheris / libFuzzer) with a semantic oracle inside the target.

    python -m vlib.atheris_target <C16|C20> <runs> <seed> <outdir>

The process is taken over by libFuzzer; the oracle lives in props.cNN.fuzz_one(data, ctx) and raises on a
violation, in which case the offending input is written to <outdir>/violation.json before the process stops.
Writes <outdir>/stats.json (executions, distinct non-trivial inputs by the property's own rule) at exit."""
import os, sys, json, atexit, hashlib, warnings

VERIF = os.path.dirname(os.path.dirname(os.path.abspath(__file__)))


def main():
    pid, runs, seed, outdir = sys.argv[1], int(sys.argv[2]), int(sys.argv[3]), sys.argv[4]
    warnings.simplefilter('ignore')
    sys.path.insert(0, VERIF)
    sys.path.append(os.path.join(VERIF, '.deps'))
    import atheris
    from vlib import shard
    import hypothesis, werkzeug, boltons   # noqa  (not instrumented: only the code under test gives the coverage signal)
    with atheris.instrument_imports(include=['clastic', 'secure_cookie']):
        shard._setup_path()
        import clastic.middleware.cookie, clastic.flaw, clastic.static, clastic.render   # noqa
    from vlib import findings
    import importlib
    ctx = shard.Ctx(pid, {'tier': 'thorough', 'seed': seed, 'shard': 900}, set(findings.load(pid)))
    mod = importlib.import_module('props.' + pid.lower())
    mod.fuzz_prepare(ctx)
    stats = {'execs': 0, 'nontrivial': set()}

    def dump():
        with open(os.path.join(outdir, 'stats.json'), 'w') as f:
            json.dump({'execs': stats['execs'], 'distinct_nontrivial': len(stats['nontrivial']),
                       'classes': dict(ctx.classes)}, f)

    def one(data):
        stats['execs'] += 1
        try:
            nt = mod.fuzz_one(data, ctx)
        except shard.Violation as v:
            with open(os.path.join(outdir, 'violation.json'), 'w') as f:
                json.dump({'sig': v.sig, 'msg': v.msg, 'case': {'bytes': data.decode('latin1')}}, f)
            dump()
            raise
        except Exception as e:
            where = shard._in_clastic(e.__traceback__)
            if where:
                with open(os.path.join(outdir, 'violation.json'), 'w') as f:
                    json.dump({'sig': 'unexpected-exception:%s@%s' % (type(e).__name__, where), 'msg': repr(e)[:300],
                               'case': {'bytes': data.decode('latin1')}}, f)
                dump()
            raise
        if nt:
            stats['nontrivial'].add(hashlib.sha1(data).digest()[:8])
        if stats['execs'] % 2000 == 0:
            dump()
    corpus = os.path.join(outdir, 'corpus')
    os.makedirs(corpus, exist_ok=True)
    for i, seed_input in enumerate(mod.fuzz_seeds(ctx)):
        with open(os.path.join(corpus, 'seed-%d' % i), 'wb') as f:
            f.write(seed_input)
    atexit.register(dump)
    argv = [sys.argv[0], '-runs=%d' % runs, '-seed=%d' % (seed or 1), '-max_len=%d' % getattr(mod, 'FUZZ_MAX_LEN', 512),
            '-print_final_stats=0', '-verbosity=0', '-artifact_prefix=' + outdir + os.sep, corpus]
    atheris.Setup(argv, one)
    try:
        atheris.Fuzz()
    finally:
        dump()


if __name__ == '__main__':
    main()
