"""G1 - Hypothesis strategies for configurations (construction, not rejection)."""
from hypothesis import strategies as st
from vlib import inject as I

NAMES = ['a', 'b', 'c', 'd', 'e']
ALL_NAMES = NAMES + list(I.BUILTINS) + ['context']
# type id -> (unique, reorderable)
TYPES = {0: (True, True), 1: (True, True), 2: (True, True), 3: (True, True), 4: (False, True), 5: (False, True),
         6: (True, False)}


def _param_kind(draw, posonly=True):
    return draw(st.sampled_from(['pos'] * 7 + ['kw'] * 2 + (['posonly'] if posonly else ['pos'])))


@st.composite
def signature(draw, scope, free_p=0.12, max_params=4, posonly=True, default_p=0.3, exclude=()):
    """parameters mostly drawn from `scope` (names available to the function), sometimes from anywhere"""
    k = draw(st.sampled_from([0, 1, 1, 2, 2, 3, max_params]))
    scope = sorted(n for n in scope if n not in exclude)
    out, seen = [], set()
    for _ in range(k):
        if scope and draw(st.floats(0, 1)) >= free_p:
            n = draw(st.sampled_from(scope))
        else:
            n = draw(st.sampled_from([x for x in ALL_NAMES if x not in exclude]))
        if n in seen:
            continue
        seen.add(n)
        out.append([n, _param_kind(draw, posonly), draw(st.floats(0, 1)) < default_p])
    return out


@st.composite
def config(draw, max_levels=1, max_mws=4, posonly=True, nonunique=True, nonreorderable=False, free_p=0.12,
           all_kinds=True, perturb=True, renderless_ctx=False, route_dups=False):
    nlevels = draw(st.integers(1, max_levels))
    pool = list(NAMES)
    roles = {}
    for n in pool:
        roles[n] = draw(st.sampled_from(['url', 'res', 'res', 'prov', 'prov', 'prov', 'none']))
    url = [n for n in pool if roles[n] == 'url'][:3]
    res_names = [n for n in pool if roles[n] == 'res']
    prov_names = [n for n in pool if roles[n] == 'prov']
    # where resources live: outermost level, route, inner levels; a name may also be shared with L0
    levels = [{'res': [], 'mws': [], 'prefix': draw(st.sampled_from(['/s', '/s/', '/t/u', '/s', '/v/<p%d>' % k, '/<p%d>/' % k]))}
              for k in range(nlevels)]
    route = {'res': [], 'mws': [], 'url': url,
             'url_types': dict((u, [draw(st.sampled_from(['', '', 'int', 'float', 'str'])), draw(st.sampled_from(['', '', '?']))]) for u in url)}
    for n in res_names:
        where = draw(st.sampled_from(['L0', 'L0', 'R', 'inner', 'L0+R', 'L0+inner']))
        if 'L0' in where:
            levels[0]['res'].append(n)
        if where.endswith('R'):
            route['res'].append(n)
        if where.endswith('inner'):
            if nlevels > 1:
                levels[draw(st.integers(1, nlevels - 1))]['res'].append(n)
            elif 'L0' not in where:
                levels[0]['res'].append(n)
    # middlewares
    nm = draw(st.integers(0, max_mws))
    slots = []  # (container, mw)
    tids_ok = [t for t, (u, r) in TYPES.items() if (nonunique or u) and (nonreorderable or r)]
    remaining = list(prov_names)
    # (route_dups) one configuration in four keeps all its middlewares on the Route: an application without middlewares of its
    # own still has to merge - and de-duplicate - the Route's list
    route_heavy = route_dups and draw(st.integers(0, 3)) == 0
    for j in range(nm):
        where = 'R' if route_heavy else draw(st.sampled_from(['L0', 'L0', 'R'] + (['inner'] if nlevels > 1 else [])))
        cont = levels[0] if where == 'L0' else route if where == 'R' else levels[draw(st.integers(1, nlevels - 1))]
        tid = draw(st.sampled_from(tids_ok))
        if TYPES[tid][0] and any(m['tid'] == tid for m in cont['mws']) and \
                not (route_dups and where == 'R' and draw(st.integers(0, 1)) == 0):
            # (route_dups: a Route's own list may name one unique type twice - the merge keeps it once, at its first position,
            # or refuses a non-reorderable one; an Application's own list is checked as given, so no duplicates there)
            free = [t for t in tids_ok if not any(m['tid'] == t for m in cont['mws'])]
            if not free:
                continue
            tid = free[0]
        mw = {'tid': tid, 'unique': TYPES[tid][0], 'reorderable': TYPES[tid][1],
              'style': draw(st.sampled_from(['func', 'method'])),
              'provides': [], 'endpoint_provides': [], 'render_provides': [],
              'request': None, 'endpoint': None, 'render': None}
        present = draw(st.sampled_from([('request',), ('request',), ('endpoint',), ('render',), ('request', 'endpoint'),
                                        ('request', 'render'), ('endpoint', 'render'), ('request', 'endpoint', 'render'), ()]))
        for ph in present:
            mw[ph] = []
        cont['mws'].append(mw)
        slots.append((where, cont, mw))
    shared_mw = None
    if nonunique and draw(st.floats(0, 1)) < 0.15:
        # the *same instance* of a non-unique type listed at two places of the stack (no parameters, no provides)
        shared_mw = {'tid': 4, 'unique': False, 'reorderable': True, 'style': draw(st.sampled_from(['func', 'method'])), 'share': True,
                     'provides': [], 'endpoint_provides': [], 'render_provides': [],
                     'request': [] if draw(st.booleans()) else None, 'endpoint': [] if draw(st.booleans()) else None, 'render': None}
        if shared_mw['request'] is None and shared_mw['endpoint'] is None:
            shared_mw['request'] = []
        conts = [levels[0], route] + levels[1:]
        for _ in range(2):
            c_ = draw(st.sampled_from(conts))
            if not any(m.get('share') is None and m['tid'] == 4 for m in c_['mws']):
                c_['mws'].insert(draw(st.integers(0, len(c_['mws']))), shared_mw)
    # hand provided names to middleware lists (mostly lists whose function exists: O4)
    for n in remaining:
        if not slots:
            break
        where, cont, mw = draw(st.sampled_from(slots))
        have = [pl for ph, pl in I.PHASES if mw[ph] is not None]
        if have and draw(st.floats(0, 1)) < 0.9:
            pl = draw(st.sampled_from(have))
        else:
            pl = draw(st.sampled_from(['provides', 'endpoint_provides', 'render_provides']))
        mw[pl].append(n)
    for where, cont, mw in slots:
        mw['call'] = draw(st.sampled_from(['kw', 'kw', 'pos', 'mixed']))
        for _, pl in I.PHASES:
            if len(mw[pl]) > 1:
                mw[pl] = list(draw(st.permutations(mw[pl])))
    has_rn = draw(st.floats(0, 1)) < 0.7
    cfg = {'levels': levels, 'route': route, 'build': draw(st.sampled_from(['list', 'add']))}
    # availability on the merged stack (ignoring rejections) guides the signatures
    t = I.tag(cfg)
    try:
        stack = list(t['route']['mws'])
        for lv in reversed(t['levels']):
            stack = I.merge(lv['mws'], stack)
    except I.Reject:
        stack = [m for lv in t['levels'] for m in lv['mws']] + list(t['route']['mws'])
    all_res = set(route['res'])
    for lv in levels:
        all_res |= set(lv['res'])
    # URL bindings carried by embedding prefixes are offered to every function of the route as well
    url_all = list(url) + [n for lv in levels[1:] for n in I.prefix_names(lv)]
    av = I.availability(stack, url_all, all_res)
    by_id = {}
    for i, lv in enumerate(levels):
        for j, mw in enumerate(lv['mws']):
            by_id['L%d.m%d' % (i, j)] = (mw, i)
    for j, mw in enumerate(route['mws']):
        by_id['R.m%d' % j] = (mw, None)
    for mwid, (mw, lvl) in by_id.items():
        if mw.get('share'):
            continue
        for ph, pl in I.PHASES:
            if mw[ph] is None:
                continue
            fid = '%s.%s' % (mwid, ph)
            scope = av.get(fid)
            if scope is None:
                scope = set(I.BUILTINS)   # de-duplicated away on this route; still bound on its own level
            if lvl is not None and draw(st.floats(0, 1)) < 0.85:
                # application-level functions also run on the catch-all route: stay inside what that offers
                lv = levels[lvl]
                t_l = t['levels'][lvl]
                av_null = I.availability(t_l['mws'], [], lv['res'])
                scope = scope & av_null.get(fid, set(I.BUILTINS))
            mw[ph] = draw(signature(scope, free_p=free_p, posonly=posonly, exclude=('next',)))
    route['ep'] = draw(signature(av['ep'], free_p=free_p, posonly=posonly, exclude=('next', 'context')))
    pert = None
    if perturb and free_p > 0 and draw(st.floats(0, 1)) < 0.15:
        # perturbation: one name declared with a default by one function and required by another function of the same phase
        # (either order); when nothing offers the name the configuration is unsatisfiable although "someone has a default"
        offered = set(url) | all_res
        for m_ in stack:
            for _, pl_ in I.PHASES:
                offered |= set(m_.get(pl_) or ())
        unoffered = [n for n in NAMES if n not in offered]
        phase = draw(st.sampled_from(['request', 'endpoint', 'render']))
        pert = (phase, draw(st.sampled_from(unoffered + NAMES[:1])), draw(st.booleans()))
    kinds = list(I.EP_KINDS) if all_kinds else ['func']
    route['ep_kind'] = draw(st.sampled_from(kinds))
    if has_rn:
        route['rn'] = draw(signature(av['rn'], free_p=free_p, posonly=posonly, exclude=('next',)))
        route['rn_kind'] = draw(st.sampled_from(kinds))
        route['ep_returns'] = draw(st.sampled_from(['context', 'context', 'context', 'response']))
    else:
        route['rn'] = None
        # (C03 only) an endpoint that returns a context although the route has no renderer: the render middlewares still run
        # around the identity render, and unless one of them answers the request ends as "expected Response" (C08's 500)
        route['ep_returns'] = draw(st.sampled_from(['response', 'response', 'context'])) if renderless_ctx else 'response'
    if pert:
        phase, name, optional_first = pert
        funcs = [mw_[phase] for mw_, _ in by_id.values() if mw_.get(phase) is not None and not mw_.get('share')]
        if phase == 'endpoint':
            funcs.append(route['ep'])
        if phase == 'render' and route['rn'] is not None:
            funcs.append(route['rn'])
        if len(funcs) >= 2:
            i1 = draw(st.integers(0, len(funcs) - 2))
            i2 = draw(st.integers(i1 + 1, len(funcs) - 1))
            first, second = funcs[i1], funcs[i2]
            for f_ in (first, second):
                f_[:] = [p_ for p_ in f_ if p_[0] != name]
            first.append([name, 'pos', optional_first])
            second.append([name, 'pos', not optional_first])
    return cfg
