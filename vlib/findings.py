"""KNOWN_FINDINGS.txt: `known: property=CNN sig=<sig> <what fails>` and
`fixed: property=CNN <commit> <what failed>` lines.  Never written at run time.
A `sig` names a predicate over the *input* (computed by the property module), so
another violation of the same property is still reported."""
import os, re

PATH = os.path.join(os.path.dirname(os.path.dirname(os.path.abspath(__file__))), 'KNOWN_FINDINGS.txt')


def load(pid):
    out = {}
    if not os.path.exists(PATH):
        return out
    for line in open(PATH):
        line = line.strip()
        m = re.match(r'known:\s+property=(\S+)\s+sig=(\S+)\s*(.*)$', line)
        if m and m.group(1) == pid:
            out[m.group(2)] = m.group(3)
    return out
