"""Raw WSGI caller: hand-built environ, recording start_response, close() tracking."""
import io, sys
from urllib.parse import quote


class Resp(object):
    __slots__ = ('status', 'status_line', 'headers', 'body', 'sr_calls', 'chunks', 'closed', 'exc')

    def header(self, name, default=None):
        for k, v in self.headers:
            if k.lower() == name.lower():
                return v
        return default

    def headers_all(self, name):
        return [v for k, v in self.headers if k.lower() == name.lower()]

    def __repr__(self):
        return '<Resp %s %r>' % (self.status_line, self.body[:60])


def pathinfo(path):
    """decoded text path -> PATH_INFO as PEP 3333 wants it (UTF-8 bytes as latin-1 text)"""
    return path.encode('utf-8', 'surrogateescape').decode('latin-1')


def make_environ(path='/', method='GET', query='', headers=None, body=b'', host='example.test',
                 script_name='', raw_path_info=None, extra=None):
    env = {
        'REQUEST_METHOD': method,
        'SCRIPT_NAME': script_name,
        'PATH_INFO': raw_path_info if raw_path_info is not None else pathinfo(path),
        'QUERY_STRING': query,
        'SERVER_NAME': host,
        'SERVER_PORT': '80',
        'HTTP_HOST': host,
        'SERVER_PROTOCOL': 'HTTP/1.1',
        'wsgi.version': (1, 0),
        'wsgi.url_scheme': 'http',
        'wsgi.input': io.BytesIO(body),
        'wsgi.errors': io.StringIO(),
        'wsgi.multithread': False,
        'wsgi.multiprocess': False,
        'wsgi.run_once': False,
    }
    if script_name is None:
        del env['SCRIPT_NAME']            # PEP 3333: may be omitted when it would be empty
    if body or method in ('POST', 'PUT', 'PATCH'):
        env['CONTENT_LENGTH'] = str(len(body))
    for k, v in (headers or {}).items():
        kk = k.upper().replace('-', '_')
        if kk in ('CONTENT_TYPE', 'CONTENT_LENGTH'):
            env[kk] = v
        else:
            env['HTTP_' + kk] = v
    if extra:
        env.update(extra)
    return env


def call_environ(app, env, reraise=False):
    r = Resp()
    r.sr_calls = []
    r.exc = None
    r.closed = None
    r.chunks = []
    r.status = None
    r.status_line = None
    r.headers = []
    r.body = b''

    def start_response(status, headers, exc_info=None):
        r.sr_calls.append((status, list(headers), len(r.chunks)))
        r.status_line = status
        r.headers = list(headers)
        try:
            r.status = int(status[:3])
        except Exception:
            r.status = None
        return lambda data: r.chunks.append(data)
    try:
        it = app(env, start_response)
        try:
            for chunk in it:
                r.chunks.append(chunk)
        finally:
            if hasattr(it, 'close'):
                it.close()
                r.closed = True
    except Exception as e:
        if reraise:
            raise
        r.exc = e
    try:
        r.body = b''.join(r.chunks)
    except TypeError:
        r.body = b''.join(c if isinstance(c, bytes) else repr(c).encode() for c in r.chunks)
    return r


def call(app, path='/', method='GET', query='', headers=None, body=b'', **kw):
    reraise = kw.pop('reraise', False)
    return call_environ(app, make_environ(path, method, query, headers, body, **kw), reraise=reraise)
