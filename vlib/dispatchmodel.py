"""M3 - reference dispatcher, written from the C06/C07 statements and docs/application.rst."""
from vlib import urlmodel as U

# behaviour -> (status, breaking)
BEHAVIOURS = {
    'answer': (200, True),
    'raise403': (403, True),
    'ret404': (404, True),
    'raise500': (500, True),
    'ret503': (503, True),
    'nb403': (403, False),
    'nbret404': (404, False),
    'nb500': (500, False),
    'boom': (500, True),
    # one pre-built error object (an application-level constant) raised / returned by every route with this behaviour
    'nb403-shared': (403, False),
    'nbret404-shared': (404, False),
}
SHARED = {}


def reset_shared():
    """fresh shared error objects (called at the start of a case so that a case replays on its own)"""
    from clastic import errors
    SHARED['nb403'] = errors.Forbidden(is_breaking=False)
    SHARED['nbret404'] = errors.NotFound(is_breaking=False)


def method_set(methods):
    if not methods:
        return None
    ms = set(m.upper() for m in methods)
    if 'GET' in ms:
        ms.add('HEAD')
    return ms


class Entry(object):
    def __init__(self, rid, pattern, methods, beh, mode):
        self.rid, self.pattern, self.methods, self.beh, self.mode = rid, pattern, methods, beh, mode
        self.parsed = U.parse(pattern)
        self.mset = method_set(methods)

    def key(self):
        return [self.rid, self.pattern, sorted(self.methods or []), self.beh, self.mode]


def seen_path(path):
    """O11: werkzeug's Request.path collapses leading slashes before clastic dispatches"""
    return '/' + path.lstrip('/')


def dispatch(table, path, method, known_skip=None):
    """-> dict(kind, status, rid, allow, params, location)"""
    m = method.upper()
    path = seen_path(path)
    last_nb = None
    allowed = set()
    matched_any = False
    for e in table:
        asg = U.match(e.parsed, e.mode, path)
        if not asg:
            continue
        matched_any = True
        if e.mset is not None and m not in e.mset:
            allowed |= e.mset
            continue
        if e.parsed[1] and e.mode == U.REDIRECT and U.normalize(path, True) != path:
            return {'kind': 'redirect', 'rid': e.rid, 'location': U.normalize(path, True), 'params': asg}
        status, breaking = BEHAVIOURS[e.beh]
        if e.beh == 'answer':
            return {'kind': 'answer', 'status': 200, 'rid': e.rid, 'params': asg}
        if breaking:
            return {'kind': 'error', 'status': status, 'rid': e.rid}
        last_nb = (status, e.rid)
    if last_nb:
        return {'kind': 'fallthrough-error', 'status': last_nb[0], 'rid': last_nb[1]}
    if allowed:
        return {'kind': '405', 'status': 405, 'allow': allowed, 'rid': None}
    return {'kind': '404', 'status': 404, 'rid': None}


def path_match_count(table, path):
    path = seen_path(path)
    return sum(1 for e in table if U.match(e.parsed, e.mode, path))


def make_endpoint(rid, beh, names=()):
    """harness endpoint with the given behaviour; body names the route and echoes its params"""
    from clastic import Response, errors
    if not SHARED:
        reset_shared()
    ns = {'Response': Response, 'errors': errors, 'rid': rid, 'SHARED': SHARED}
    body = {
        'answer': "return Response('route-%s' % rid)",
        'raise403': "raise errors.Forbidden()",
        'ret404': "return errors.NotFound()",
        'raise500': "raise errors.InternalServerError()",
        'ret503': "return errors.ServiceUnavailable()",
        'nb403': "raise errors.Forbidden(is_breaking=False)",
        'nbret404': "return errors.NotFound(is_breaking=False)",
        'nb500': "raise errors.InternalServerError(is_breaking=False)",
        'boom': "raise ZeroDivisionError('boom-%s' % rid)",
        'nb403-shared': "raise SHARED['nb403']",
        'nbret404-shared': "return SHARED['nbret404']",
    }[beh]
    src = 'def ep(%s):\n    %s\n' % (', '.join(names), body)
    exec(src, ns)
    return ns['ep']
