"""Shared request-time checks for C01/C02/C03: serve requests against a built configuration and compare the
recorded calls with M1's plan."""
from vlib import inject as I
from vlib.wsgi import call


def kw_only(cfg):
    def s(sig):
        return any(p[1] == 'kw' for p in (sig or []))
    rt = cfg['route']
    return s(rt['ep']) or s(rt.get('rn')) or any(s(mw.get(ph)) for mw in I.all_mws(cfg) for ph, _ in I.PHASES)


def input_sig(cfg, exc=None):
    """signature of the *input* for findings recorded against C01/C02: a positional-only parameter on the route and the
    request-time TypeError it causes (any other disagreement on such a configuration is reported normally)"""
    if I.has_posonly(cfg) and isinstance(exc, TypeError):
        return 'positional-only-parameter'
    return None


def entered(trace):
    return [fid for ev, fid, _ in trace if ev == 'enter']


def expected_enters(view, rt, beh=None):
    ev, outcome = view.simulate(beh or {}, rt.get('ep_returns', 'response'), rt.get('rn') is not None)
    return [e[1] for e in ev if e[0] == 'enter'], ev, outcome


def check_sources(ctx, cfg, built, view, req, url_values, dstate_ids, rc):
    """C02: every recorded call received exactly its declared source, by identity"""
    w = built.world
    trace = list(w.trace)
    req_objs = set()
    ds_objs = set()
    ctx_seen = None
    kinds_at = {}
    for ev, fid, payload in trace:
        if ev != 'enter':
            continue
        sig = view.sig_of(fid)
        declared = set(I.names_of(sig))
        if set(payload) != declared:
            ctx.mismatch(I_sig(cfg) or 'undeclared-argument', '%s called with %r, declares %r' % (fid, sorted(payload), sorted(declared)), rc)
        kinds = set()
        for name, got in payload.items():
            kind, detail = view.source(fid, name)
            kinds.add(kind)
            ok = True
            if kind == 'url':
                want = url_values.get(name)
                ok = (got == want) and type(got) is type(want)
            elif kind == 'resource':
                want = w.resources[(detail, name)]
                ok = got is want
            elif kind == 'builtin':
                want = name
                if name == 'request':
                    req_objs.add(id(got))
                    ok = getattr(got, 'path', None) == req['seen_path'] and got is req.setdefault('obj', got)
                elif name == '_application':
                    ok = got is built.app
                    want = built.app
                elif name == '_route':
                    want = req['route_obj']
                    if want is None:    # catch-all route: not one of app.routes, one object per request
                        ok = got is req.setdefault('nullroute', got) and all(got is not x for x in built.app.routes)
                    else:
                        ok = got is want
                elif name == '_dispatch_state':
                    ok = got is req.setdefault('ds', got) and type(got).__name__ == 'DispatchState' and id(got) not in dstate_ids
                elif name == 'context':
                    want = w.tokens.get('ctx')
                    ok = want is not None and got is want
            elif kind == 'provided':
                want = w.provided.get((detail, name))
                ok = want is not None and got is want
            else:
                want = w.defaults[fid].get(name)
                ok = want is not None and got is want
            if not ok:
                ctx.mismatch(I_sig(cfg) or ('wrong-source-' + kind), '%s(%s=...) got %r, expected its %s source %r'
                             % (fid, name, got, kind, want), rc)
        kinds_at[fid] = kinds
    return kinds_at


def I_sig(cfg):
    return input_sig(cfg)


def serve(ctx, cfg, built, plan, rc, sources=False, n_requests=1, with_null=True):
    """issue requests; returns dict of observations.  Any exception / wrong status / missing call is a mismatch."""
    w = built.world
    rt = cfg['route']
    obs = {'kinds': {}, 'provided_differs': False}
    seen_ds = set()
    seen_req = set()
    prev_prov = None
    for k in range(n_requests):
        w.new_request()
        path, urlv = I.request_path(cfg, built, w.reqno)
        method = (rt.get('methods') or ['GET'])[0]
        r = call(built.app, path, method)
        ctx.requests += 1
        want, ev, outcome = expected_enters(plan.route, rt)
        if r.exc is not None:
            ctx.mismatch(input_sig(cfg, r.exc) or ('request-%s' % type(r.exc).__name__),
                         'accepted configuration, %s %s raised %r' % (method, path, r.exc), rc)
            return obs
        if r.status != 200:
            ctx.mismatch(input_sig(cfg) or 'request-status', '%s %s -> %s %r' % (method, path, r.status, r.body[:100]), rc)
            return obs
        got = entered(w.trace)
        if got != want:
            ctx.mismatch(input_sig(cfg) or 'functions-called', '%s %s entered %r, expected %r' % (method, path, got, want), rc)
            return obs
        if sources:
            req = {'seen_path': path, 'route_obj': [r_ for r_ in built.app.routes if r_.pattern == built.pattern][0]}
            kinds = check_sources(ctx, cfg, built, plan.route, req, urlv, seen_ds, rc)
            for fid, ks in kinds.items():
                obs['kinds'].setdefault(fid, set()).update(ks)
            if 'ds' in req:
                seen_ds.add(id(req['ds']))
                obs.setdefault('keep', []).append(req['ds'])   # keep alive so ids stay unique
            if 'obj' in req:
                if id(req['obj']) in seen_req:
                    ctx.mismatch('request-object-reused', 'same Request object in two requests', rc)
                seen_req.add(id(req['obj']))
                obs.setdefault('keep', []).append(req['obj'])
            prov = dict(w.provided)
            if prev_prov is not None and prov and all(prov[k2] is not prev_prov.get(k2) for k2 in prov):
                obs['provided_differs'] = True
            prev_prov = prov
    if with_null:
        for method, path, status in (('GET', '/nope-%d' % w.reqno, 404),) + \
                ((('DELETE' if 'DELETE' not in [m.upper() for m in rt['methods']] else 'PATCH', I.request_path(cfg, built, 1)[0], 405),)
                 if rt.get('methods') else ()):
            w.new_request()
            r = call(built.app, path, method)
            ctx.requests += 1
            want, ev, outcome = expected_enters(plan.null, {'ep_returns': 'response', 'rn': None})
            if r.exc is not None or r.status != status:
                ctx.mismatch(input_sig(cfg, r.exc) or 'null-route-request', '%s %s -> %s %r (expected %s)' % (method, path, r.status, r.exc, status), rc)
                return obs
            got = entered(w.trace)
            if got != want:
                ctx.mismatch(input_sig(cfg) or 'null-route-functions', '%s %s entered %r, expected %r' % (method, path, got, want), rc)
                return obs
            if sources:
                req = {'seen_path': path, 'route_obj': None}
                check_sources(ctx, cfg, built, plan.null, req, {}, seen_ds, rc)
    return obs
