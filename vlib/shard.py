"""Child-side: one shard in a fresh interpreter.  python -m vlib.shard CNN spec.json out.json"""
import os, sys, json, time, traceback, hashlib, collections, warnings

VERIF = os.path.dirname(os.path.dirname(os.path.abspath(__file__)))
CLASTIC_ROOT = os.path.abspath(os.environ.get('CLASTIC_ROOT', '/repo'))


def _setup_path():
    deps = os.path.join(VERIF, '.deps')
    if VERIF not in sys.path:
        sys.path.insert(0, VERIF)
    # third-party first from the interpreter, .deps as fallback
    try:
        import hypothesis  # noqa
    except ImportError:
        sys.path.append(deps)
        import hypothesis  # noqa
    import werkzeug, boltons, ashes  # noqa  (cached byte-code is fine for these)
    rundir = os.environ.get('VERIF_RUNDIR')
    if rundir:
        # clastic's byte-code is always compiled from the sources as they are now
        sys.pycache_prefix = os.path.join(rundir, 'pyc')
    sys.path.insert(0, CLASTIC_ROOT)
    for m in list(sys.modules):
        if m == 'clastic' or m.startswith('clastic.'):
            del sys.modules[m]
    import clastic
    assert os.path.abspath(clastic.__file__).startswith(CLASTIC_ROOT), clastic.__file__


class Violation(Exception):
    def __init__(self, sig, msg, case=None):
        Exception.__init__(self, '%s: %s' % (sig, msg))
        self.sig, self.msg, self.case = sig, msg, case


def chash(obj):
    return hashlib.sha1(json.dumps(obj, sort_keys=True, default=repr).encode()).hexdigest()[:12]


def _in_clastic(tb):
    """innermost frame of the traceback that lies inside clastic (or its generated code)"""
    hit = None
    for fs in traceback.extract_tb(tb):
        fn = fs.filename
        if fn.startswith('<sinter generated') or (os.sep + 'clastic' + os.sep) in fn and fn.startswith(CLASTIC_ROOT):
            hit = '%s:%s' % (os.path.basename(fn), fs.name)
    return hit


class Ctx(object):
    def __init__(self, pid, spec, known):
        self.pid, self.spec, self.known_sigs = pid, spec, known
        self.tier = spec.get('tier', 'quick')
        self.seed = int(spec.get('seed', 1))
        self.shard = int(spec.get('shard', 0))
        self.evaluations = 0
        self.requests = 0
        self.nontrivial = set()
        self.nontrivial_disjoint = 0
        self.samples = []
        self.classes = collections.Counter()
        self.violations = []
        self.known = collections.Counter()
        self.notes = []
        self.extra = {}
        self.exhaustive = None
        self.current = None
        self.max_samples = 4
        self.t0 = time.time()

    # ---- bookkeeping
    def case(self, case):
        self.current = case
        self.evaluations += 1

    def nt(self, canon=None, sample=True):
        c = self.current if canon is None else canon
        h = chash(c)
        if h not in self.nontrivial:
            self.nontrivial.add(h)
            if sample and len(self.samples) < self.max_samples:
                self.samples.append(c)

    def event(self, label, n=1):
        self.classes[label] += n

    def note(self, text):
        if text not in self.notes:
            self.notes.append(text)

    def hseed(self, k=0):
        return self.seed * 1000 + self.shard * 17 + k

    # ---- outcomes
    def mismatch(self, sig, msg, case=None):
        """A disagreement with the oracle.  Known signature: count and go on."""
        if sig in self.known_sigs:
            self.known[sig] += 1
            return
        v = Violation(sig, msg, self.current if case is None else case)
        if getattr(self, 'first_violation', None) is None:
            try:
                self.first_violation = Violation(sig, msg, json.loads(json.dumps(v.case, default=repr)))
            except Exception:
                self.first_violation = v
        raise v

    def _flaky(self, e, kind):
        """Hypothesis could not reproduce a failure it had seen (Flaky...).  If an oracle disagreement with the code under test
        was observed in this run, that disagreement is real - the code carries state from one case to the next - and is
        reported with the case it was first seen on; without one it is a harness problem."""
        v = getattr(self, 'first_violation', None)
        if v is None:
            raise e
        v.msg += ' [seen in a run Hypothesis could not replay (%s): the code under test keeps state between cases; the case alone may not reproduce it]' % type(e).__name__
        self.record(v, kind)
        self.first_violation = None

    def record(self, v, kind=None):
        self.violations.append({'sig': v.sig, 'msg': v.msg, 'case': v.case, 'kind': kind})

    def classify_exc(self, e, case, kind=None):
        """Violation / exception-from-clastic -> recorded violation; else re-raise (harness error)."""
        if isinstance(e, Violation):
            if e.case is None:
                e.case = case
            self.record(e, kind)
            return
        where = _in_clastic(e.__traceback__)
        if where:
            v = Violation('unexpected-exception:%s@%s' % (type(e).__name__, where),
                          ''.join(traceback.format_exception_only(type(e), e)).strip()[:400], case)
            self.record(v, kind)
            return
        raise e

    # ---- drivers
    def loop(self, cases, body, kind=None, max_sigs=8):
        """plain enumeration: every case runs; violations are bucketed by signature."""
        seen = set()
        for case in cases:
            self.case(case)
            try:
                body(case, self)
            except Exception as e:
                n = len(self.violations)
                self.classify_exc(e, case, kind)
                for v in self.violations[n:]:
                    seen.add(v['sig'])
                # keep only the smallest case per signature
                best = {}
                for v in self.violations:
                    k = v['sig']
                    if k not in best or len(json.dumps(v['case'], default=repr)) < len(json.dumps(best[k]['case'], default=repr)):
                        best[k] = v
                self.violations = list(best.values())
                if len(seen) >= max_sigs:
                    self.note('stopped enumeration after %d distinct violation signatures' % max_sigs)
                    return

    def hyp(self, strategy, body, n, kind=None, k=0, shrink=True, stateful_steps=None):
        import hypothesis
        from hypothesis import given, settings, HealthCheck, Phase, seed
        phases = [Phase.generate, Phase.target] + ([Phase.shrink] if shrink else [])
        st = settings(max_examples=n, database=None, deadline=None, report_multiple_bugs=False,
                      suppress_health_check=list(HealthCheck), phases=phases, derandomize=False)
        ctx = self
        last = {}

        @seed(self.hseed(k))
        @st
        @given(strategy)
        def t(case):
            last['case'] = case
            ctx.case(case)
            body(case, ctx)
        try:
            t()
        except Exception as e:
            if type(e).__module__.startswith('hypothesis'):
                # Unsatisfiable etc: a harness problem, never a violation; Flaky: see _flaky
                if 'Flaky' in type(e).__name__:
                    self._flaky(e, kind)
                    return
                raise
            self.classify_exc(e, last.get('case'), kind)
        self.first_violation = None

    def machine(self, machine_cls, n, steps, k=0, kind=None):
        from hypothesis import settings, HealthCheck, Phase, seed
        from hypothesis.stateful import run_state_machine_as_test
        st = settings(max_examples=n, stateful_step_count=steps, database=None, deadline=None,
                      report_multiple_bugs=False, suppress_health_check=list(HealthCheck),
                      phases=[Phase.generate, Phase.target, Phase.shrink], derandomize=False)
        machine_cls.ctx = self
        machine_cls.last_history = None
        try:
            run_state_machine_as_test(seed(self.hseed(k))(machine_cls), settings=st)
        except Exception as e:
            if type(e).__module__.startswith('hypothesis'):
                if 'Flaky' in type(e).__name__:
                    self._flaky(e, kind)
                    return
                raise
            self.classify_exc(e, machine_cls.last_history, kind)
        self.first_violation = None

    def result(self):
        r = {
            'evaluations': self.evaluations, 'requests': self.requests,
            'nontrivial': sorted(self.nontrivial), 'nontrivial_disjoint': self.nontrivial_disjoint,
            'samples': self.samples, 'classes': dict(self.classes),
            'violations': self.violations, 'known': dict(self.known), 'notes': self.notes,
            'extra': self.extra, 'wall_s': round(time.time() - self.t0, 2),
        }
        if self.exhaustive is not None:
            r['exhaustive'] = self.exhaustive
        return r


def main():
    pid, specp, outp = sys.argv[1:4]
    warnings.simplefilter('ignore')
    res = None
    try:
        _setup_path()
        spec = json.load(open(specp))
        from vlib import findings
        known = set(findings.load(pid))
        import importlib
        mod = importlib.import_module('props.' + pid.lower())
        ctx = Ctx(pid, spec, known)
        mode = spec.get('mode', 'run')
        if mode == 'run':
            mod.run_shard(spec, ctx)
        else:
            cases = [(spec['case'], spec.get('kind'))] if mode == 'replay' else \
                    [(c['case'], c.get('kind')) for c in spec['cases']]
            for case, kind in cases:
                ctx.case(case)
                try:
                    mod.replay(case, kind, ctx)
                except Exception as e:
                    ctx.classify_exc(e, case, kind)
            ctx.event('regression-replays', len(cases))
        res = ctx.result()
    except BaseException as e:
        res = {'error': ''.join(traceback.format_exception(type(e), e, e.__traceback__))[-4000:]}
    with open(outp, 'w') as f:
        json.dump(res, f, default=repr)
    sys.stdout.flush()
    os._exit(0)


if __name__ == '__main__':
    main()


def run_atheris(ctx, pid, runs, timeout=3000):
    """thorough tier: coverage-guided campaign in a child process (libFuzzer takes the process over)"""
    import subprocess, tempfile, shutil
    outdir = tempfile.mkdtemp(prefix='atheris-', dir=os.environ.get('VERIF_RUNDIR') or None)
    env = dict(os.environ)
    env['PYTHONPATH'] = VERIF + os.pathsep + os.path.join(VERIF, '.deps') + os.pathsep + env.get('PYTHONPATH', '')
    try:
        p = subprocess.run([sys.executable, '-m', 'vlib.atheris_target', pid, str(runs), str(ctx.seed), outdir],
                           cwd=VERIF, env=env, capture_output=True, text=True, timeout=timeout)
    except subprocess.TimeoutExpired:
        ctx.note('atheris campaign hit its wall-clock budget: inconclusive beyond what stats.json reports')
        p = None
    stats_p = os.path.join(outdir, 'stats.json')
    viol_p = os.path.join(outdir, 'violation.json')
    if os.path.exists(stats_p):
        st = json.load(open(stats_p))
        ctx.evaluations += st['execs']
        ctx.nontrivial_disjoint += st['distinct_nontrivial']
        ctx.extra['atheris_execs'] = st['execs']
        for k, v in st.get('classes', {}).items():
            ctx.classes['atheris-' + k] += v
    elif p is not None:
        ctx.note('atheris could not run (%s); the Hypothesis campaigns are the engine of record' % (p.stderr or p.stdout)[-300:].strip().replace('\n', ' | '))
    if os.path.exists(viol_p):
        v = json.load(open(viol_p))
        ctx.record(Violation(v['sig'], v['msg'], v['case']), 'bytes')
    shutil.rmtree(outdir, ignore_errors=True)
