#!/usr/bin/env python3
"""Builds /tmp/wt/<ID><suffix>.prompt.txt for seeding sub-agents from properties.jsonl + tools/seed_prompt.tmpl.
    tools/mkprompts.py <suffix> [--hard]      e.g.  tools/mkprompts.py d --hard
Each agent gets only the property text, its own worktree (/tmp/wt/<ID><suffix>, create with
`git -C /repo worktree add --detach /tmp/wt/<ID><suffix> HEAD`) and the summaries of the changes already seeded."""
import json, os, sys
V = os.path.dirname(os.path.dirname(os.path.abspath(__file__)))
suffix = sys.argv[1]
hard = '--hard' in sys.argv
tmpl = open(os.path.join(V, 'tools', 'seed_prompt.tmpl')).read()
seeds = {}
for d in sorted(os.listdir(os.path.join(V, 'seeded'))):
    m = json.load(open(os.path.join(V, 'seeded', d, 'meta.json')))
    seeds.setdefault(m['property'], []).append(m.get('summary', '')[:400])
os.makedirs('/tmp/wt', exist_ok=True)
for l in open(os.path.join(V, 'properties.jsonl')):
    p = json.loads(l); i = p['id']
    prop = "%s - %s\n\nSTATEMENT: %s\n\nQUANTIFIED OVER: %s\n\nWHY EXISTING TESTS CANNOT SETTLE IT: %s\n\nCODE ANCHORS: %s\n" % (
        i, p['title'], p['statement'], p['quantifier']['text'], p['why_tests_cant'], json.dumps(p['anchors'].get('mechanism')))
    open('/tmp/wt/%s.prop.txt' % i, 'w').write(prop)
    extra = "\n\nIMPORTANT - DIVERSITY%s: other engineers have already seeded the changes summarised below; yours must use a DIFFERENT mechanism in a different function%s\nAlready taken:\n%s\n" % (
        ' AND DIFFICULTY' if hard else '',
        (', and it must be HARDER to expose: prefer two cooperating edits in different places, a defect that needs a specific multi-step history on the same objects, '
         'a defect that only shows when something fails at one particular point or under one interleaving, or an interaction of two optional features. '
         'Do NOT touch DispatchState.update_methods (that aliasing idea has been used four times).') if hard else '.',
        "\n".join(" - " + x for x in seeds.get(i, [])))
    name = i + suffix
    text = tmpl.replace('@ID@', name).replace('@PROP@', prop + extra).replace('/tmp/wt/%s.prop.txt' % name, '/tmp/wt/%s.prop.txt' % i)
    text = text.replace('"property": "%s"' % name, '"property": "%s"' % i)
    open('/tmp/wt/%s.prompt.txt' % name, 'w').write(text)
print('prompts written to /tmp/wt/*%s.prompt.txt' % suffix)
