#!/bin/sh
# false-alarm gate: every check, several seeds, on the unchanged tree; prints one line per non-quiet run
cd "$(dirname "$0")/.." || exit 2
SEEDS="${1:-2 3 4 5 6}"
TIER="${2:-quick}"
bad=0
for s in $SEEDS; do
  for n in 01 02 03 04 05 06 07 08 09 10 11 12 13 14 15 16 17 18 19 20; do
    out=$(VERIF_SEED=$s ./check C$n --tier $TIER 2>&1); rc=$?
    if [ $rc -ne 0 ]; then bad=$((bad+1)); echo "NOT QUIET seed=$s C$n rc=$rc"; echo "$out" | tail -5; fi
    echo "$out" | head -1
  done
done
echo "gate finished: $bad non-quiet runs"
