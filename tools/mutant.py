#!/usr/bin/env python3
"""Sensitivity test: apply one property-breaking patch to a scratch copy of /repo (outside /repo and /verif),
confirm the repository's own tests still pass there, run the quick check with CLASTIC_ROOT pointing at the copy and
require a VIOLATION.      tools/mutant.py mutants/C03-merge-order.patch [--no-tests] [--tier quick]
Header lines of a patch:  '# property: C03[,C10]'   '# expect: caught|missed'  """
import os, re, shutil, subprocess, sys, tempfile

VERIF = os.path.dirname(os.path.dirname(os.path.abspath(__file__)))


def run_one(patch, tests=True, tier='quick', props=None, keep=False):
    head = open(patch).read().split('diff --git')[0]
    m = re.search(r'#\s*property:\s*([\w, ]+)', head)
    props = props or [p.strip() for p in m.group(1).split(',')]
    scratch = tempfile.mkdtemp(prefix='clastic-mut-', dir='/var/tmp')
    out = {'patch': os.path.basename(patch), 'props': {}, 'tests': None}
    try:
        dst = os.path.join(scratch, 'repo')
        subprocess.check_call(['git', 'clone', '-q', '--no-hardlinks', '/repo', dst])
        # carry over uncommitted edits of the working tree, if any
        diff = subprocess.run(['git', '-C', '/repo', 'diff', 'HEAD'], capture_output=True, text=True).stdout
        if diff.strip():
            subprocess.run(['git', '-C', dst, 'apply'], input=diff, text=True, check=True)
        r = subprocess.run(['git', '-C', dst, 'apply', '--whitespace=nowarn', os.path.abspath(patch)], capture_output=True, text=True)
        if r.returncode != 0:
            r = subprocess.run(['patch', '-p1', '-d', dst, '-i', os.path.abspath(patch)], capture_output=True, text=True)
            if r.returncode != 0:
                out['error'] = 'patch does not apply: ' + r.stdout[-300:] + r.stderr[-300:]
                return out
        if tests:
            t = subprocess.run(['/venv/bin/python', '-m', 'pytest', '-q', '-x', '-p', 'no:cacheprovider', 'clastic'],
                               cwd=dst, capture_output=True, text=True, env=dict(os.environ, PYTHONDONTWRITEBYTECODE='1'))
            tail = t.stdout.strip().splitlines()[-1] if t.stdout.strip() else ''
            out['tests'] = tail
            out['tests_pass'] = t.returncode == 0
        for pid in props:
            env = dict(os.environ, CLASTIC_ROOT=dst, VERIF_TIER=tier, VERIF_EVIDENCE_DIR=os.path.join(scratch, 'evidence'))
            c = subprocess.run([os.path.join(VERIF, 'check'), pid, '--tier', tier], capture_output=True, text=True, env=env, cwd=VERIF)
            viol = [l for l in c.stdout.splitlines() if l.startswith('VIOLATION')]
            detail = [l for l in c.stdout.splitlines() if l.startswith('  ')][:2]
            out['props'][pid] = {'rc': c.returncode, 'violations': len(viol), 'detail': detail,
                                 'harness': [l for l in c.stdout.splitlines() if l.startswith('HARNESS')][:1]}
        return out
    finally:
        if not keep:
            shutil.rmtree(scratch, ignore_errors=True)


def main():
    args = sys.argv[1:]
    tests = '--no-tests' not in args
    tier = 'quick'
    if '--tier' in args:
        tier = args[args.index('--tier') + 1]
    props = None
    if '--props' in args:
        props = args[args.index('--props') + 1].split(',')
    patches = [a for a in args if a.endswith('.patch') or a.endswith('.diff')]
    rc = 0
    for p in patches:
        o = run_one(p, tests, tier, props)
        caught = [pid for pid, d in o['props'].items() if d['rc'] == 1 and d['violations']]
        status = 'CAUGHT by %s' % ','.join(caught) if caught else 'MISSED'
        print('%-44s tests:%-28s %s' % (o['patch'], (o.get('tests') or '-')[:28], o.get('error') or status))
        for pid, d in o['props'].items():
            for l in d['detail'] + d['harness']:
                print('      %s %s' % (pid, l.strip()[:200]))
        if not caught:
            rc = 1
    return rc


if __name__ == '__main__':
    sys.exit(main())
