#!/usr/bin/env python3
"""Print the DESIGN.md section 2.5 table from the evidence files (quick tier) and, if given, a thorough-tier gate log.

    python3 tools/budget_table.py [gate-thorough.log]
"""
import json
import os
import re
import sys

HERE = os.path.dirname(os.path.dirname(os.path.abspath(__file__)))


def fmt(n):
    return '{:,}'.format(n).replace(',', ' ')


def main():
    th = {}
    if len(sys.argv) > 1:
        for line in open(sys.argv[1]):
            m = re.match(r'(C\d\d) tier=thorough seed=\d+: (\d+) cases, (\d+) distinct non-trivial, (\d+) requests, ([\d.]+)s', line)
            if m:
                th[m.group(1)] = (int(m.group(2)), int(m.group(3)), float(m.group(5)))
    print('| Property | cases | distinct non-trivial | requests | wall s | thorough tier: cases / non-trivial / wall s |')
    print('|---|---|---|---|---|---|')
    for n in range(1, 21):
        pid = 'C%02d' % n
        e = json.load(open(os.path.join(HERE, 'evidence', pid + '.json')))
        c = e['coverage']
        t = th.get(pid)
        print('| %s | %s | %s | %s | %d | %s |' % (pid, fmt(c['evaluations']), fmt(c['distinct_nontrivial']), fmt(c['requests']),
                                               round(e['wall_s']), ('%s / %s / %d' % (fmt(t[0]), fmt(t[1]), round(t[2]))) if t else '-'))


if __name__ == '__main__':
    main()
