#!/usr/bin/env python3
"""Equivalent or invalid candidates that were tried and dropped: C06-method-case (werkzeug upper-cases the method before clastic
sees it), C11-shared-middleware-list and C15-gzip-length-before (no observable change), C16-unquote-plain-json (needs a valid MAC,
not forgeable), C20-type-msg-swapped (both are still named), C04-builtins-not-a-source / C04-dispatch-state-not-reserved (break the
import), C11-insert-while-binding (no-op).

(Re)generates /verif/mutants/*.patch from the table below: one-line property-breaking edits of clastic, the ones
listed per property in DESIGN.md §4.  Each is made in a scratch clone of /repo under /var/tmp (removed afterwards)."""
import os, subprocess, shutil, sys, tempfile

VERIF = os.path.dirname(os.path.dirname(os.path.abspath(__file__)))
M = [
    # name, properties, description, file, old, new
    ('C01-provider-satisfies-itself', 'C01', 'chain_argspec: provides counted before the provider\'s own requirements', 'clastic/sinter.py',
     "        required_sofar |= set(undefaulted) - provided_sofar\n        provided_sofar.update(p)\n",
     "        provided_sofar.update(p)\n        required_sofar |= set(undefaulted) - provided_sofar\n"),
    ('C01-unresolved-minus-optional', 'C01', 'make_chain: unresolved = reqs - preprovided - opts', 'clastic/sinter.py',
     "    unresolved = tuple(reqs - preprovided)\n", "    unresolved = tuple(reqs - preprovided - opts)\n"),
    ('C01-render-sees-endpoint-provides', 'C01,C02', 'render phase may use endpoint_provides', 'clastic/middleware/core.py',
     "    rn_avail = ep_avail | set(['context'])\n",
     "    rn_avail = ep_avail | set(['context']) | set(itertools.chain.from_iterable(ep_provides))\n"),
    ('C02-resources-win-over-params', 'C02,C10', 'BoundRoute.execute: bound resources override the serving application\'s values', 'clastic/route.py',
     "        injectables.update(self.resources)\n        injectables.update(kwargs)\n        return inject(self._execute, injectables)\n",
     "        injectables.update(kwargs)\n        injectables.update(self.resources)\n        return inject(self._execute, injectables)\n"),
    ('C02-render-gets-endpoint-args', 'C02,C01', '_create_request_inner passes the endpoint argument list to render', 'clastic/middleware/core.py',
     "    rn_args_str = _named_arg_str(render_args)\n", "    rn_args_str = _named_arg_str(set(render_args) | (set(endpoint_args) - set(['next'])))\n"),
    ('C03-always-render', 'C03,C08', 'process_request calls render even for Response results', 'clastic/middleware/core.py',
     "    if isinstance(context, BaseResponse):\n        resp = context\n    else:\n        resp = render({render_args})\n",
     "    resp = render({render_args})\n"),
    ('C03-dedupe-keeps-inner', 'C03,C10', 'merge_middlewares keeps the inner instance of a duplicated unique type', 'clastic/middleware/core.py',
     "        if mw.unique and mw in merged:\n            if mw.reorderable:\n                continue\n",
     "        if mw.unique and mw in merged:\n            if mw.reorderable:\n                merged[merged.index(mw)] = mw\n                continue\n"),
    ('C04-skip-render-provides', 'C04', 'check_middlewares ignores render_provides', 'clastic/middleware/core.py',
     "        for arg in mw.render_provides:\n            provided_by[arg].append(mw)\n", ""),
    ('C04-context-in-request-phase', 'C04,C01', 'request phase may require context', 'clastic/middleware/core.py',
     "    req_avail = set(preprovided) - set(['next', 'context'])\n", "    req_avail = set(preprovided) - set(['next'])\n"),
    ('C05-plus-not-multi', 'C05', "'+' treated as single-arity", 'clastic/route.py', "                 '+': True,\n", "                 '+': False,\n"),
    ('C05-int-without-sign', 'C05', 'int pattern without sign', 'clastic/route.py', "_INT_PATTERN = r'([+-]|\\ *)[0-9]+'", "_INT_PATTERN = r'\\ *[0-9]+'"),
    ('C05-float-needs-dot', 'C05', 'float pattern requires a dot', 'clastic/route.py',
     "(\\d+(\\.\\d*)?|\\.\\d+)([eE][+-]?\\d+)?'", "(\\d+\\.\\d*|\\.\\d+)([eE][+-]?\\d+)?'"),
    ('C05-optional-empty-string', 'C05', 'absent optional binding yields empty string instead of None', 'clastic/route.py',
     "        if not value and optional:\n            return None\n", "        if not value and optional:\n            return ''\n"),
    ('C05-valueerror-escapes', 'C05', 'match_path does not catch ValueError', 'clastic/route.py',
     "        except (KeyError, TypeError, ValueError):\n", "        except (KeyError, TypeError):\n"),
    ('C06-get-without-head', 'C06', 'GET does not imply HEAD', 'clastic/route.py', "            if 'GET' in self.methods:\n                self.methods.add('HEAD')\n", ""),
    ('C06-add-ignores-index', 'C06,C11', 'add() appends regardless of index', 'clastic/application.py',
     "        for br in bound_routes:\n            self.routes.insert(index, br)\n            index += 1\n",
     "        for br in bound_routes:\n            self.routes.append(br)\n"),
    ('C06-null-prefers-405', 'C06', 'null route prefers 405 over the last non-breaking error', 'clastic/route.py',
     "        if _dispatch_state.exceptions:\n            return _dispatch_state.exceptions[-1]\n        elif _dispatch_state.allowed_methods:\n",
     "        if _dispatch_state.allowed_methods and False:\n            pass\n        elif _dispatch_state.exceptions:\n            return _dispatch_state.exceptions[0]\n        elif _dispatch_state.allowed_methods:\n"),
    ('C07-keep-double-slash', 'C07', 'normalize_path keeps empty segments in the middle', 'clastic/route.py',
     "    ret = [x for x in path.split('/') if x]\n", "    ret = [x for i, x in enumerate(path.strip('/').split('/')) if x or i]\n"),
    ('C07-drop-query', 'C07', 'slash redirect drops the query string', 'clastic/application.py',
     "                                 url_quote(norm_path), '?', query_string]\n", "                                 url_quote(norm_path)]\n"),
    ('C07-redirect-in-rewrite', 'C07', 'rewrite mode also redirects', 'clastic/application.py',
     "                    if route.slash_mode == S_REDIRECT:\n", "                    if route.slash_mode != S_STRICT:\n"),
    ('C08-narrow-except', 'C08', 'dispatch only catches ValueError/TypeError/KeyError/ArithmeticError', 'clastic/application.py',
     "            except Exception as exc:\n                ret = exc\n", "            except (ValueError, TypeError, LookupError, ArithmeticError, RuntimeError, OSError, AssertionError) as exc:\n                ret = exc\n"),
    ('C08-no-default-render-fallback', 'C08', 'failing render_error is not retried with the default rendering', 'clastic/application.py',
     "            except Exception:\n                ret = default_render_error(**error_params)\n", "            except ZeroDivisionError:\n                ret = default_render_error(**error_params)\n"),
    ('C08-nonresponse-passes', 'C08', 'non-Response results are passed to the server', 'clastic/application.py',
     "                if not isinstance(ret, BaseResponse):\n                    msg = 'expected Response, received %r' % type(ret)\n                    raise TypeError(msg)\n",
     "                if ret is None:\n                    msg = 'expected Response, received %r' % type(ret)\n                    raise TypeError(msg)\n"),
    ('C09-html-unescaped-detail', 'C09', 'to_escaped_dict does not escape detail', 'clastic/errors.py',
     "            try:\n                ret[k] = html_escape(v, True)\n", "            try:\n                ret[k] = v if k == 'detail' and isinstance(v, str) else html_escape(v, True)\n"),
    ('C09-404-path-unescaped', 'C09', 'debug 404 page renders the request path unescaped', 'clastic/_contextual_errors.py', '{request.path}', '{request.path|s}'),
    ('C10-inner-resources-win', 'C10,C02', 'same as C02-resources-win-over-params', 'clastic/route.py',
     "        injectables.update(self.resources)\n        injectables.update(kwargs)\n        return inject(self._execute, injectables)\n",
     "        injectables.update(kwargs)\n        injectables.update(self.resources)\n        return inject(self._execute, injectables)\n"),
    ('C10-prefix-not-stripped', 'C10', 'SubApplication keeps a trailing slash of the prefix', 'clastic/application.py',
     "        self.prefix = prefix.rstrip('/')\n", "        self.prefix = prefix if prefix != '/' else ''\n"),
    ('C10-always-rebind-render', 'C10', 'embedding always re-binds the render argument', 'clastic/application.py',
     "        kwargs.setdefault('rebind_render', self.rebind_render)\n", "        kwargs['rebind_render'] = True\n"),
    ('C12-params-on-self', 'C12', 'dispatch stashes the current params on the application', 'clastic/application.py',
     "            params = dict(base_params, **path_params)\n            method_allowed = route.match_method(method)\n",
     "            self._cur_params = dict(base_params, **path_params)\n            method_allowed = route.match_method(method)\n            params = self._cur_params\n"),
    ('C12-dispatch-state-on-app', 'C12', 'DispatchState kept as an application attribute', 'clastic/application.py',
     "        dispatch_state = DispatchState()\n", "        self._ds = DispatchState()\n        dispatch_state = self._ds\n"),
    ('C13-reroute-copies-environ', 'C13', 'RerouteWSGI hands a copy of the environ', 'clastic/application.py',
     "            return rre.wsgi_app(environ, start_response)\n", "            return rre.wsgi_app(dict(environ), start_response)\n"),
    ('C13-wrappers-not-reversed', 'C13', 'wsgi wrappers applied in list order (last outermost)', 'clastic/application.py',
     "        for mw in reversed(all_mws):\n            self._dispatch_wsgi = _safe_wrap_wsgi('middleware', mw, self._dispatch_wsgi)\n",
     "        for mw in all_mws:\n            self._dispatch_wsgi = _safe_wrap_wsgi('middleware', mw, self._dispatch_wsgi)\n"),
    ('C13-static-reads-file', 'C13,C14', 'static response reads the file without closing it', 'clastic/static.py',
     "    resp.response = file_wrapper(file_obj)\n", "    resp.response = [file_obj.read()]\n"),
    ('C14-no-pardir-check', 'C14', 'find_file without the parent-directory check', 'clastic/static.py',
     "        if rel_path.startswith(os.pardir):\n            raise ValueError('attempted to access beyond root directory')\n", ""),
    ('C14-leading-slash-on-raw-path', 'C14', 'leading-slash check on the raw instead of the normalised path', 'clastic/static.py',
     "        if rel_path.startswith('/'):\n", "        if path.startswith('/') and False or rel_path.startswith('//'):\n"),
    ('C14-breaking-forbidden', 'C14', 'unreadable file raises a breaking 403', 'clastic/static.py',
     "    except (ValueError, IOError, OSError):\n        raise Forbidden(is_breaking=False)\n    if not mimetype:\n",
     "    except (ValueError, IOError, OSError):\n        raise Forbidden()\n    if not mimetype:\n"),
    ('C14-mtime-strict-less', 'C14', '304 only when the file is strictly older', 'clastic/static.py', "        if mtime <= cached_modify_time:\n", "        if mtime < cached_modify_time:\n"),
    ('C15-gzip-no-vary-when-identity', 'C15', 'Vary only added when compressing', 'clastic/middleware/compress.py',
     "        resp.vary.add('Accept-Encoding')\n        if resp.content_encoding or not request.accept_encodings['gzip']:\n            return resp\n",
     "        if resp.content_encoding or not request.accept_encodings['gzip']:\n            return resp\n        resp.vary.add('Accept-Encoding')\n"),
    ('C15-cache-conditional-on-post', 'C15', 'profile middleware triggers on any _prof-like parameter', 'clastic/middleware/profile.py',
     "        if not request.args.get(self.get_param_name):\n            return next()\n", "        if not request.args.get(self.get_param_name) and request.method != 'HEAD':\n            return next()\n"),
    ('C16-no-expiry-stamp', 'C16', 'middleware does not stamp _expires', 'clastic/middleware/cookie.py',
     "            if '_expires' not in cookie:\n                cookie['_expires'] = time.time() + self.expiry\n", "            pass\n"),
    ('C17-guess-json-prefix-only', 'C17', '_guess_json true for any text starting with a brace', 'clastic/render/simple.py',
     "        elif bytestr[:1] == b'{' and bytestr[-1:] == b'}':\n", "        elif bytestr[:1] == b'{':\n"),
    ('C17-encoder-drops-to-dict', 'C17', 'encoder default ignores to_dict', 'clastic/render/simple.py',
     "            if callable(getattr(obj, 'to_dict', None)):\n                return obj.to_dict()\n", ""),
    ('C17-unsized-repr', 'C17', 'render_basic sends tuples down the text path', 'clastic/render/simple.py',
     "        if not isinstance(context, Sized):\n", "        if not isinstance(context, Sized) or isinstance(context, tuple):\n"),
    ('C18-json-unredacted', 'C18', 'redaction only when the value is a string', 'clastic/meta.py',
     "        if 'secret' in key:\n", "        if 'secret' in key and isinstance(val, (str, bytes)):\n"),
    ('C18-no-peripheral-try', 'C18', 'a failing peripheral fails the page', 'clastic/meta.py',
     "            try:\n                peri_ctx = inject(peri.get_context, kwargs)\n            except Exception as e:\n                peri_ctx = {'exc_content': repr(e)}\n",
     "            peri_ctx = inject(peri.get_context, kwargs)\n"),
    ('C19-hit-only-on-success', 'C19', 'stats recorded in else instead of finally', 'clastic/middleware/stats.py',
     "        finally:\n            end_time = time.time()\n", "        else:\n            end_time = time.time()\n"),
    ('C19-reset-keeps-counts', 'C19', 'reset does not clear the hit table', 'clastic/middleware/stats.py',
     "    def reset(self):\n        self.route_hits = defaultdict(lambda: defaultdict(RouteStatReservoir))\n",
     "    def reset(self):\n        if not hasattr(self, 'route_hits'):\n            self.route_hits = defaultdict(lambda: defaultdict(RouteStatReservoir))\n"),
    ('C19-resize-no-truncate', 'C19', 'resize does not truncate', 'clastic/middleware/stats.py',
     "        self._data = self._data[:new_size]\n", "        pass\n"),
    ('C20-tb-unescaped', 'C20', 'traceback text rendered unescaped', 'clastic/flaw.py', "<pre>{tb_str}</pre>", "<pre>{tb_str|s}</pre>"),
    ('C20-no-bare-except', 'C20', 'create_app lets parser errors escape', 'clastic/flaw.py',
     "    except:\n        parsed_error = {}\n", "    except ValueError:\n        parsed_error = {}\n"),
]


def main():
    scratch = tempfile.mkdtemp(prefix='mkmut-', dir='/var/tmp')
    try:
        dst = os.path.join(scratch, 'repo')
        subprocess.check_call(['git', 'clone', '-q', '/repo', dst])
        n = 0
        for name, props, desc, path, old, new in M:
            fp = os.path.join(dst, path)
            s = open(fp).read()
            if s.count(old) < 1:
                print('SKIP (anchor not found): %s' % name)
                continue
            open(fp, 'w').write(s.replace(old, new, 1))
            d = subprocess.run(['git', '-C', dst, 'diff'], capture_output=True, text=True).stdout
            subprocess.check_call(['git', '-C', dst, 'checkout', '-q', '--', '.'])
            with open(os.path.join(VERIF, 'mutants', name + '.patch'), 'w') as f:
                f.write('# property: %s\n# %s\n%s' % (props, desc, d))
            n += 1
        print('%d mutants written' % n)
    finally:
        shutil.rmtree(scratch, ignore_errors=True)


if __name__ == '__main__':
    main()
