#!/usr/bin/env python3
"""Seeded property-breaking changes (written by independent sub-agents).
  tools/seed.py import <ID> <worktree> [<name>]   copy <worktree>/_seed/{patch.diff,demo.py,meta.json} to seeded/<name>/
  tools/seed.py verify <name>                     fresh scratch worktree: demo passes without, tests pass + demo fails with the patch
  tools/seed.py run <name> [--tier T] [--props C01,C02]   apply to /repo, run the checks, undo straight afterwards
"""
import json, os, shutil, subprocess, sys, tempfile

VERIF = os.path.dirname(os.path.dirname(os.path.abspath(__file__)))
PY = '/venv/bin/python'


def sh(cmd, **kw):
    return subprocess.run(cmd, capture_output=True, text=True, **kw)


def do_import(pid, wt, name=None):
    name = name or pid
    d = os.path.join(VERIF, 'seeded', name)
    os.makedirs(d, exist_ok=True)
    for f in ('patch.diff', 'demo.py', 'meta.json'):
        shutil.copy(os.path.join(wt, '_seed', f), os.path.join(d, f))
    print('imported', d)


def do_verify(name):
    d = os.path.join(VERIF, 'seeded', name)
    wt = tempfile.mkdtemp(prefix='seedverify-', dir='/var/tmp')
    os.rmdir(wt)
    try:
        assert sh(['git', '-C', '/repo', 'worktree', 'add', '-q', '--detach', wt, 'HEAD']).returncode == 0
        os.makedirs(os.path.join(wt, '_seed'))
        shutil.copy(os.path.join(d, 'demo.py'), os.path.join(wt, '_seed', 'demo.py'))
        env = dict(os.environ, PYTHONDONTWRITEBYTECODE='1')
        r0 = sh([PY, '_seed/demo.py'], cwd=wt, env=env)
        a = sh(['git', '-C', wt, 'apply', '--whitespace=nowarn', '-3', os.path.join(d, 'patch.diff')])
        if a.returncode != 0:
            print('PATCH DOES NOT APPLY', a.stderr[-400:])
            return 1
        t = sh([PY, '-m', 'pytest', '-q', '-p', 'no:cacheprovider', 'clastic'], cwd=wt, env=env)
        r1 = sh([PY, '_seed/demo.py'], cwd=wt, env=env)
        tail = (t.stdout.strip().splitlines() or [''])[-1]
        ok = r0.returncode == 0 and r1.returncode != 0 and t.returncode == 0
        print('%s: demo without patch rc=%d, tests with patch: %s, demo with patch rc=%d  => %s'
              % (name, r0.returncode, tail, r1.returncode, 'VALID' if ok else 'INVALID'))
        if not ok:
            print(r0.stdout[-300:], r0.stderr[-300:], r1.stdout[-300:], r1.stderr[-300:])
        meta_p = os.path.join(d, 'meta.json')
        meta = json.load(open(meta_p))
        meta['verified'] = {'demo_without_patch_rc': r0.returncode, 'tests_with_patch': tail, 'demo_with_patch_rc': r1.returncode,
                            'base_commit': sh(['git', '-C', '/repo', 'rev-parse', '--short', 'HEAD']).stdout.strip(), 'valid': ok}
        json.dump(meta, open(meta_p, 'w'), indent=1)
        return 0 if ok else 1
    finally:
        sh(['git', '-C', '/repo', 'worktree', 'remove', '--force', wt])
        shutil.rmtree(wt, ignore_errors=True)


def do_run(name, tier='quick', props=None):
    d = os.path.join(VERIF, 'seeded', name)
    meta = json.load(open(os.path.join(d, 'meta.json')))
    props = props or [meta['property']]
    st = sh(['git', '-C', '/repo', 'status', '--porcelain', '--untracked-files=no']).stdout.strip()
    if st:
        print('refusing: /repo has uncommitted changes:\n' + st)
        return 2
    evdir = tempfile.mkdtemp(prefix='seed-ev-', dir='/var/tmp')
    results = {}
    try:
        a = sh(['git', '-C', '/repo', 'apply', '--whitespace=nowarn', '-3', os.path.join(d, 'patch.diff')])
        if a.returncode != 0:
            print('PATCH DOES NOT APPLY', a.stderr[-400:])
            return 2
        for pid in props:
            c = sh([os.path.join(VERIF, 'check'), pid, '--tier', tier], cwd=VERIF, env=dict(os.environ, VERIF_EVIDENCE_DIR=evdir))
            viol = [l for l in c.stdout.splitlines() if l.startswith('VIOLATION')]
            detail = [l.strip()[:260] for l in c.stdout.splitlines() if l.startswith('  ')][:3]
            harness = [l[:300] for l in c.stdout.splitlines() if l.startswith('HARNESS')][:1]
            results[pid] = {'rc': c.returncode, 'violations': len(viol), 'detail': detail, 'harness': harness,
                            'summary': (c.stdout.splitlines() or [''])[0][:200]}
    finally:
        sh(['git', '-C', '/repo', 'reset', '-q'])
        sh(['git', '-C', '/repo', 'checkout', '--', '.'])
        shutil.rmtree(evdir, ignore_errors=True)
    for pid, r in results.items():
        verdict = 'CAUGHT' if r['rc'] == 1 and r['violations'] else ('HARNESS-ERROR' if r['rc'] == 2 else 'MISSED')
        print('%s vs %s (%s): %s   %s' % (name, pid, tier, verdict, r['summary']))
        for l in r['detail'] + r['harness']:
            print('     ', l)
    meta.setdefault('checked', {})
    for pid, r in results.items():
        meta['checked']['%s/%s' % (pid, tier)] = 'caught' if r['rc'] == 1 and r['violations'] else 'missed' if r['rc'] == 0 else 'harness-error'
    json.dump(meta, open(os.path.join(d, 'meta.json'), 'w'), indent=1)
    return 0


def main():
    a = sys.argv[1:]
    if a[0] == 'import':
        return do_import(*a[1:])
    if a[0] == 'verify':
        return do_verify(a[1])
    if a[0] == 'run':
        tier = a[a.index('--tier') + 1] if '--tier' in a else 'quick'
        props = a[a.index('--props') + 1].split(',') if '--props' in a else None
        return do_run(a[1], tier, props)


if __name__ == '__main__':
    sys.exit(main())
