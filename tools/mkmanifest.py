#!/usr/bin/env python3
"""Regenerates MANIFEST.json from the table below (keeps it valid at all times)."""
import json, os, importlib, sys

VERIF = os.path.dirname(os.path.dirname(os.path.abspath(__file__)))
sys.path.insert(0, VERIF)

# id -> (category, technique, text, note, design_ref)
CHECKS = {
    'C05': ('exploration',
            'exhaustive enumeration of short paths + Hypothesis random paths against a hand-written reference matcher (model-based differential)',
            'Every path up to a length bound over an 11-character alphabet x catalogue patterns x 3 slash modes is compared '
            'with an independent segment matcher (no regex); long random paths, numeric lexical forms and invalid patterns are '
            'generated with Hypothesis/PRNG. Exhaustive only inside the bound, sampling beyond it.',
            'trusts the reference matcher vlib/urlmodel.py (written from the docs) and Python int()/float() as the definition of a valid literal',
            'DESIGN.md §4 C05, §3 M2'),
    'C06': ('exploration',
            'Hypothesis-generated routing tables x full request catalogue against a reference dispatcher (model-based)',
            'Random routing tables (constructor list or add(entry,index) sequences) are each sent 96 requests; status, answering '
            'route, Allow set and route order are compared with an independent dispatcher model built on the reference matcher.',
            'trusts vlib/dispatchmodel.py + vlib/urlmodel.py; mirrors werkzeug leading-slash collapse (O11)',
            'DESIGN.md §4 C06, §3 M3'),
    'C07': ('exploration',
            'Hypothesis-generated route/mode/path/query cases; reference dispatcher decides whether a redirect is due; redirect-follow round trip',
            'For generated slash-mode configurations (application, route, embedded, inherited or not), decoded segments with '
            'URL-significant characters and arbitrary query strings, a due redirect is parsed with urllib, compared with the '
            'canonical path and query, and followed: it must reach the same route with the same parameters in one hop. Whether embedded routes inherit the mode is said in three ways (SubApplication flag, add() keyword, overridden flag); a complete way x inheritance x mode^3 x path shape x method family runs in every tier.',
            'trusts urllib.parse and the reference models; query strings that are not URL-legal are compared after percent-decoding',
            'DESIGN.md §4 C07'),
    'C01': ('exploration',
            'Hypothesis-generated configurations against a reference dependency resolver (model-based), then requests on accepted ones',
            'Generated configurations (signatures incl. keyword-only / positional-only, 9 callable kinds, provides in all three '
            'phases, resources, URL bindings) are constructed; accept/reject must equal the reference resolver (NameError when '
            'unsatisfiable, cyclic graphs exempt) and every accepted configuration must serve a matching request, an unknown '
            'path and a wrong method without any exception, calling exactly the expected functions.',
            'trusts vlib/inject.py (M1), written from the statement and docs; exception messages not compared',
            'DESIGN.md §4 C01, §3 G1/M1'),
    'C02': ('exploration',
            'Hypothesis-generated accepted configurations with identity sentinels; recorded arguments compared with the model source; AST check of generated chain code',
            'Every call recorded by harness functions is compared, parameter by parameter and by object identity, with the '
            'source the reference model assigns (URL value, registered resource object, built-in, value passed to next() in '
            'this request, own default) over two consecutive requests plus 404/405, under several hash seeds; additionally '
            'the generated chain sources in linecache are parsed and every call must pass k=k for declared, bound names.',
            'trusts M1 source rule; positional-only parameters excluded (recorded under C01)',
            'DESIGN.md §4 C02'),
    'C03': ('exploration',
            'Hypothesis-generated middleware stacks x one deviating function; trace compared with a reference onion interpreter',
            'Stacks over up to 3 embedded application levels plus route level with unique/non-unique/non-reorderable types; '
            'one function raises before/after next, returns early, swallows or replaces; the enter/saw-return/saw-exception '
            'trace and the final outcome (by object identity, re-raising handler) must equal the interpreter\'s prediction.',
            'trusts M1 merge rule and onion interpreter',
            'DESIGN.md §4 C03'),
    'C04': ('fault_enumeration',
            'complete enumeration of a fault matrix (name-source pairs, reserved names, next/context misuse) on fixed base shapes + Hypothesis-varied bases',
            'Each cell of the fault matrix (about 400 cells x provider with/without function; reserved names also as keyword-only parameters; render_error functions requiring context; a function object first bound validly in the render role and then declared where context is misuse; renders taking next that a render factory makes) is injected into 3 fixed valid '
            'configurations (complete) and into generated valid configurations (sampled); construction must fail (NameError '
            'for conflicts / reserved names) while the un-faulted control constructs and serves.',
            'the matrix is complete only for the listed source kinds and placements; same-kind resource overlaps are not asserted',
            'DESIGN.md §4 C04'),
    'C08': ('fault_enumeration',
            'complete behaviour x position x handler product on fixed middleware stacks + Hypothesis-generated stacks and request histories, status oracle written from the statement',
            'Each of ~160 behaviours (raise 18 exception kinds, raise/return every exported HTTPException breaking and '
            'non-breaking, return Response and 9 non-Response values) is placed at every position of fixed stacks under 5 '
            'error handlers (complete product); Hypothesis varies stack shape, Accept, method and builds histories. The WSGI '
            'call must return one well-formed response with the predicted status, exceptions escape only under the re-raising '
            'handler (and are the original object), and a probe request is answered identically afterwards. The exception catalogue includes messages outside well-formed Unicode (unpaired surrogates) and huge multi-byte messages in every byte alignment.',
            'status oracle is hand-written from the statement; BaseExceptions and streaming-body failures are not generated',
            'DESIGN.md §4 C08'),
    'C09': ('exploration',
            'Hypothesis-generated error instances / 404s / uncaught exceptions with marker-tagged hostile text; RFC status table, own Accept negotiation, stdlib JSON/XML/HTML parsers as validity oracles',
            'Every exported error class (raised and returned, default and overridden fields drawn from markup, quotes, template '
            'and format syntax, control and non-ASCII characters) x Accept headers x default/debug handlers: status must equal a '
            'hand-written table, the Content-Type must be a format the Accept header permits and the body must parse as that '
            'format; JSON and XML field values round-trip; an HTML tokenizer must see no tag, attribute, comment or script '
            'content introduced by the marker text, on basic and debug pages.',
            'negotiation is asserted only where the statement determines it (ties / parameterised / malformed ranges accept any consistent outcome); trusts html.parser, xml.etree, json',
            'DESIGN.md §4 C09'),
    'C19': ('exploration',
            'Hypothesis rule-based state machines: request/read/reset histories against a model Counter; add/resize/iterate histories over the sample store with invariants',
            'Histories of requests over routes of every outcome kind interleaved with stats reads and resets are compared, after '
            'every read/reset, with a model counter keyed by (pattern, status or exception name); a second machine drives the '
            'sample store with adds far beyond capacity, resizes and reseeds and checks capacity bound, exact total count, '
            'membership and never-raises after every step. The application under test lists its one middleware object also on a Route and an embedded application, and embeds an application with a StatsMiddleware and stats mount of its own (reads and resets through either mount). A complete family of histories over routes bound twice (one application under two prefixes, one Route in two embedded applications) runs in every tier.',
            'stats report read through the public JSON endpoint; reset request may be accounted to either epoch',
            'DESIGN.md §4 C19'),
    'C20': ('exploration',
            'Hypothesis-generated error texts (real tracebacks produced in-process, syntax reports, hostile text, None/bytes) and file lists; html.parser validity predicate',
            'create_app must construct and answer any path/method with 200; an HTML tokenizer must find no tag, attribute or '
            'comment introduced by the input; for str input the unescaped character data must contain the text and every file '
            'name; for standard tracebacks ending in "Type: message" one element must be exactly the type and one exactly the message.',
            'tracebacks are produced by the running interpreter (3.12 caret lines included); under the page\'s own asset prefix only paths that do not name an asset are requested',
            'DESIGN.md §4 C20'),
    'C17': ('exploration',
            'Hypothesis recursive value generator (spec trees) x renderers x requests; json.loads round trip against a harness-side normalisation, restated sniffing rules, html.parser for tables',
            'Generated endpoint results of every listed kind are served through render_basic, render_json(_dev), streaming JSON '
            'and JSONP inside a real Application: render_basic must answer 200, label serialized JSON / HTML documents / other '
            'text as stated with the bytes unchanged, serialize containers to JSON that parses back to the normalised value or, '
            'for tabular shapes when HTML is requested, to a table containing every cell; JSON renderers must emit JSON that '
            'round-trips for JSON-native data and degrade unknown objects to repr in dev mode. History parts on the long-lived renderer objects: a structure whose render stopped half-way, equal-but-different values (True / 1 / 1.0 ...) in every order, hook objects whose state changes between requests.',
            'look-alike JSON text and late <html> markers may be labelled either way; non-tabular shapes are not sent down the HTML path (O10)',
            'DESIGN.md §4 C17'),
    'C16': ('exploration',
            'Hypothesis rule-based state machine with a harness-owned clock and a ledger of every issued cookie (history invariant) + generated Cookie header values',
            'Histories of set/delete/clear/read requests by two clients, clock advances around the expiry, replays of any issued '
            'cookie and 12 tampering operators are run against a server with SignedCookieMiddleware; for the exact cookie string '
            'sent the ledger decides what may be presented (that entry\'s data if intact and unexpired, otherwise an empty cookie) '
            'and the response must be a normal 200; a second campaign mutates a valid cookie value structurally and freely. Complete parts: key x value round trip; server key kind (ASCII, non-Latin-1 text, bytes) x slightly different foreign keys. The round-trip catalogue includes strings outside well-formed Unicode (unpaired surrogates), non-BMP and control characters.',
            'clock is patched from outside into the two modules that read it; lenient base64 and the whole-second expiry window allow two outcomes in narrow, stated cases',
            'DESIGN.md §4 C16'),
    'C15': ('exploration',
            'differential testing: scenario application with vs without the middleware(s); complete enumeration for each middleware alone, Hypothesis-drawn stacks; gzip round trip',
            'Every built-in middleware in its default configuration, alone (all scenarios x Accept-Encoding x GET/HEAD, application '
            'and route level: enumerated completely) and in generated stacks, is compared with the same application without it: '
            'equal status, equal body after undoing gzip, gzip only for clients that accept it, Content-Length equal to the bytes '
            'sent, Vary: Accept-Encoding on both variants of a compressible URL, HEAD consistent with GET. Three endpoints consume what the GET/POST extractors and the script-root middleware provide (complete query x form x method family), so a value taken from the wrong source or converted differently changes the body.',
            'both sides run clastic (a defect that affects both identically is invisible here; C06/C08 cover those against models); uncaught-exception pages compared by status and first line',
            'DESIGN.md §4 C15'),
    'C14': ('fault_enumeration',
            'exhaustive enumeration of request paths built from a segment catalogue + complete fault-position x errno product per served file + Hypothesis path mutations; oracle = own lexical resolver and byte comparison with the generated tree',
            'A generated directory tree with secrets beside and above the roots is served by a multi-path StaticApplication and by '
            'two stacked ones. Every path of <=4 catalogue segments (incl. ".", "..", empty, absolute-path pieces) is requested: the '
            'answer must be 200 with exactly the bytes of the file the lexical resolution names inside the first root that has it, '
            'or 403/404; escapes are never 200 and no secret byte ever appears; every regular file is served at its clean path. '
            'For each served file an OS error (4 errnos) is injected at every filesystem call made before the response is '
            'returned: the answer must be 403/404 (or the next search path\'s file), never 500. If-Modified-Since at/after/before. The tree contains empty files with and without a guessable type.',
            'symlink-free tree; faults are injected by patching the names clastic.static looks up (no hook); reads during body streaming are out of scope',
            'DESIGN.md §4 C14'),
    'C13': ('exploration',
            'complete response-kind x method x header-set product under wsgiref.validate plus an own call-count/type/close() recorder; Hypothesis-generated wsgi_wrapper stacks against an order model; generated RerouteWSGI targets with identity checks',
            'Every response kind the framework produces (26 kinds, plain / gzip+cache processed / debug) x 4 methods x 4 header sets '
            'runs under the standard library validator and a recorder (start_response exactly once before any body, status line, '
            'str header pairs, bytes chunks, no body for HEAD, files closed after close()); generated stacks of wrapper middlewares '
            '(embedding, unique type at two levels, no routes) must run in the modelled order; RerouteWSGI (endpoint, raised from '
            'endpoint / middleware / render) must hand the same environ object with every original entry intact and relay '
            'status, headers and body verbatim. A complete family of failing targets / wrappers (raising before or after start_response, while iterating, after the inner application answered) must never lead to a second start_response without exc_info.',
            '204/304 are checked by the own recorder only (the validator also enforces an HTTP recommendation about Content-Type there)',
            'DESIGN.md §4 C13'),
    'C18': ('exploration',
            'Hypothesis-generated host applications with token-bearing resources; token search over raw / unescaped / JSON-decoded output plus visibility clauses read from both views',
            'Generated hosts (secret-named and plain resources of 15 value kinds incl. failing repr, every endpoint kind, static '
            'routes, embedded applications, middlewares incl. a signed-cookie middleware with a known key, meta mounted at '
            'generated prefixes and up to two embedding levels deep) are asked for the HTML and the JSON view: both must be 200, '
            'no secret token and not the signing key may occur anywhere (also after unescaping / decoding), secret names carry the '
            'redaction marker and plain resources stay visible. Resource values that are callable objects are also routed as endpoints (one object in two roles; complete secret-name x mount x depth family).',
            'only lower-case "secret" in the name is claimed; with a failing repr only 200 + no-leak are asserted',
            'DESIGN.md §4 C18'),
    'C10': ('exploration',
            'differential testing: Hypothesis-generated application trees vs the harness\'s own flattening, compared on the C06 request catalogue under every prefix',
            'Random trees (depth <=3, prefixes, shared resources, shared unique middleware types, per-level slash mode / error '
            'handler / render factory, inherit_slashes and rebind_render per embedding) are built nested, as a user would, and '
            'flat, from a flattening computed by the harness (merge rule, serving-application-wins resources, slash inheritance, '
            'renderer rule, outer error handling); status, body, Location and the middleware/endpoint trace must agree for every '
            'catalogue request under every prefix and outside. An application may be mounted more than once (generated, and a complete 256-tree family on the render-factory rule).',
            'both sides execute clastic; a factory strictly between a route\'s own application and the outermost one is not combined with factory-argument renders',
            'DESIGN.md §4 C10'),
    'C11': ('exploration',
            'Hypothesis rule-based state machine over applications and unbound routes; model routing tables (list.insert semantics) + reference dispatcher as history invariant',
            'Histories of constructing applications, creating routes, add() of routes / tuples / sub-applications at indices, '
            'failing adds of 7 kinds (also as the k-th route of an embedded application, and failing constructors), embedding, '
            'binding one Route into several applications and requests; after every step every live application\'s route table '
            'must equal the model, a fixed request set must be answered as the reference dispatcher predicts on the model, and '
            'every unbound Route must be unchanged by value and identity.',
            'trusts the reference dispatcher; an application is not embedded into itself',
            'DESIGN.md §4 C11'),
    'C12': ('exploration',
            'harness-owned deterministic thread scheduler (sys.settrace, line granularity): complete enumeration of single-preemption schedules for request pairs, Hypothesis-drawn multi-preemption schedules, free-running stress; oracle = response served alone',
            'Two to four threads send requests of 15 kinds to one shared application; for the listed ordered pairs request A is '
            'preempted after every possible number of line-steps inside clastic / generated code while B runs to completion; '
            'Hypothesis draws multi-preemption schedules for 2-4 threads; 8 free-running threads run with a 1 microsecond switch '
            'interval. Every response (status, body echoing path / URL parameters / middleware-provided token / request identity, '
            'Location, Allow) must equal the one obtained alone; request identifiers must be pairwise distinct. A burst part parks a request for a familiar URL at every step while 70-520 requests for never-seen URLs are served.',
            'serialised threads at line granularity: intra-line races only by the probabilistic stress part; a stalled schedule is inconclusive, not a violation',
            'DESIGN.md §4 C12'),
}

PENDING_REASON = 'check not built yet in this session (planned, see DESIGN.md §4); not claimed until it runs quietly on the unchanged tree'


def main():
    props = [json.loads(l) for l in open(os.path.join(VERIF, 'properties.jsonl'))]
    checks = []
    na = []
    for p in props:
        pid = p['id']
        if pid in CHECKS and os.path.exists(os.path.join(VERIF, 'props', pid.lower() + '.py')):
            cat, tech, text, note, ref = CHECKS[pid]
            checks.append({
                'property_id': pid,
                'quick_cmd': './check %s --tier quick' % pid,
                'thorough_cmd': './check %s --tier thorough' % pid,
                'evidence_file': 'evidence/%s.json' % pid,
                'replay_cmd_template': './check %s --replay {path}' % pid,
                'engine': 'pbt',
                'level_claimed': {'category': cat, 'text': text, 'design_ref': ref},
                'level_note': note,
                'technique': tech,
            })
        else:
            na.append({'property_id': pid, 'reason': NA.get(pid, PENDING_REASON)})
    man = {
        'version': 1,
        'setup_cmd': 'sh ./setup.sh',
        'hooks': {
            'guard': 'MAHMOUD_CLASTIC_VERIF',
            'enable': 'no source hooks: checks import clastic from /repo (CLASTIC_ROOT) and observe it through harness-supplied '
                      'functions, the WSGI callable, linecache, sys.settrace and patched module attributes; the runner sets '
                      'MAHMOUD_CLASTIC_VERIF=1 for uniformity but nothing in /repo reads it',
            'baseline_off_cmd': 'cd /repo && /venv/bin/python -m pytest -ra -q -p no:cacheprovider --timeout=900 --continue-on-collection-errors',
            'source_commits': [],
            'add_only': True,
        },
        'engines': [{
            'name': 'pbt', 'path': 'check',
            'serves_properties': [c['property_id'] for c in checks],
            'kind_free_text': 'Hypothesis 6.168 strategies / rule-based state machines, exhaustive enumeration of finite sub-spaces, '
                              'harness-owned thread scheduler; explicit reference models as oracles; sharded over 16 processes',
        }],
        'checks': checks,
        'not_applicable': na,
        'notes': 'See DESIGN.md. KNOWN_FINDINGS.txt lists recorded and repaired defects. VERIF_SEED selects the Hypothesis/PRNG seeds.',
    }
    with open(os.path.join(VERIF, 'MANIFEST.json'), 'w') as f:
        json.dump(man, f, indent=1)
    try:
        import jsonschema
        jsonschema.validate(man, json.load(open('/root/.vp/MANIFEST.schema.json')))
        print('MANIFEST.json valid; %d checks, %d not_applicable' % (len(checks), len(na)))
    except ImportError:
        print('MANIFEST.json written (jsonschema not available to validate)')


NA = {}

if __name__ == '__main__':
    main()
