"""C17 - the basic and JSON renderers accept every endpoint result.
Oracles: json.loads round trip against a harness-side normalisation, content sniffing rules restated from the
statement, html.parser for the table clause."""
import datetime, json, math
from html.parser import HTMLParser
from vlib.wsgi import call

INFO = {
    'level': 'exploration',
    'rule': ('endpoint results generated as spec trees (str: plain / serialized JSON object or array / HTML document / '
             'JSON-look-alike / empty / non-ASCII; bytes; int; float; bool; None; nested dict/list/tuple/set to depth 4; '
             'datetime/date; objects with to_dict / asdict / isoformat; plain objects; generators; Response; side classes: '
             'non-finite floats, non-string keys, mutually unorderable keys, bytes inside containers) x renderer '
             '(render_basic, render_json, render_json_dev, streaming JSON, JSONP with and without callback) x format in '
             '{absent, json, html} x Accept header. Non-trivial = the value is not a flat string-keyed dict of scalars; '
             'distinct (value, renderer, request) cases counted.'),
    'assumptions': ['"serialized JSON" text = output of a JSON serializer without surrounding whitespace; look-alikes ({x}, padded JSON) may be labelled either way',
                    'HTML-table clause only for tabular shapes (O10): flat mappings, sequences of scalars, sequences of same-keyed flat mappings or flat sequences',
                    'format values other than json/html are unsupported and not requested'],
}

MARK = 'zq9'
STRS = ['', 'plain', 'héllo ☃', '<zq9a>', '"quoted" & <b>', 'a\nb', '{', '[1, 2', 'null', '123', 'x' * 300, ' spaced ', '{zq9b}', '\x00\x07',
        # long tokens: longer than any buffer / chunk size a renderer may use (1 KiB, 4 KiB, 8 KiB), also through \u escapes
        'y' * 1100, 'é' * 250, 'w' * 5000, ('lorem <zq9long> ' * 600),
        '<html>', '<!doctype html><html><body>x</body></html>', '{"a": 1}', '[1, 2]']
KEYS = ['a', 'b', 'key', 'é', '<zq9k>', 'k"q', '', 'A', '0', 'long_key_name', '<html>']


# ---------------------------------------------------------------- spec trees

class ToDict(object):
    def __init__(self, d):
        self.d = d

    def to_dict(self):
        return self.d


class AsDict(object):
    def __init__(self, d):
        self.d = d

    def asdict(self):
        return self.d


class Iso(object):
    def __init__(self, s):
        self.s = s

    def isoformat(self):
        return self.s


class Plain(object):
    def __init__(self, n):
        self.n = n

    def __repr__(self):
        return '<Plain %d <zq9p>>' % self.n


def build(spec):
    t = spec[0]
    if t == 'str':
        return spec[1]
    if t == 'bytes':
        return spec[1].encode('latin1')
    if t == 'int':
        return int(spec[1])
    if t == 'float':
        return float(spec[1])
    if t == 'bool':
        return bool(spec[1])
    if t == 'none':
        return None
    if t == 'dict':
        return dict((k, build(v)) for k, v in spec[1])
    if t == 'kdict':     # keys are specs too
        return dict((build(k), build(v)) for k, v in spec[1])
    if t == 'list':
        return [build(x) for x in spec[1]]
    if t == 'tuple':
        return tuple(build(x) for x in spec[1])
    if t == 'set':
        return set(build(x) for x in spec[1])
    if t == 'dt':
        return datetime.datetime.fromisoformat(spec[1])
    if t == 'date':
        return datetime.date.fromisoformat(spec[1])
    if t == 'todict':
        return ToDict(build(spec[1]))
    if t == 'asdict':
        return AsDict(build(spec[1]))
    if t == 'iso':
        return Iso(spec[1])
    if t == 'plain':
        return Plain(spec[1])
    if t == 'gen':
        return (build(x) for x in spec[1])
    if t == 'resp':
        from clastic import Response
        return Response(spec[1], status=spec[2], mimetype='text/x-zq')
    if t == 'jsontext':
        return json.dumps(build(spec[1]), indent=spec[2])
    if t == 'htmltext':
        return '<!doctype html><html><head><title>%s</title></head><body>%s</body></html>' % (spec[1], spec[1])
    raise ValueError(t)


def equiv(parsed, spec, dev):
    """does the parsed JSON equal the JSON-native normalisation of the value described by spec?"""
    t = spec[0]
    if t in ('str', 'iso'):
        return parsed == spec[1]
    if t == 'int':
        return type(parsed) is int and parsed == int(spec[1])
    if t == 'float':
        f = float(spec[1])
        if math.isnan(f):
            return isinstance(parsed, float) and math.isnan(parsed)
        if type(parsed) not in (int, float) or parsed != f:       # (a bool is not the JSON text of any float)
            return False
        return not (f == 0 and type(parsed) is float and math.copysign(1, parsed) != math.copysign(1, f))
    if t == 'bool':
        return parsed is bool(spec[1])
    if t == 'none':
        return parsed is None
    if t == 'dict':
        return isinstance(parsed, dict) and set(parsed) == set(k for k, _ in spec[1]) and \
            all(equiv(parsed[k], v, dev) for k, v in dict(spec[1]).items())
    if t in ('list', 'tuple'):
        return isinstance(parsed, list) and len(parsed) == len(spec[1]) and all(equiv(p, s, dev) for p, s in zip(parsed, spec[1]))
    if t == 'set':
        if not isinstance(parsed, list):
            return False
        vals = set(build(x) for x in spec[1])
        try:
            return len(parsed) == len(vals) and set(tuple(p) if isinstance(p, list) else p for p in parsed) == vals and \
                sorted(map(repr, [type(p) for p in parsed])) == sorted(map(repr, [type(v) for v in vals]))
        except TypeError:
            return False
    if t == 'dt':
        return parsed == datetime.datetime.fromisoformat(spec[1]).isoformat()
    if t == 'date':
        return parsed == datetime.date.fromisoformat(spec[1]).isoformat()
    if t in ('todict', 'asdict'):
        return equiv(parsed, spec[1], dev)
    if t == 'plain':
        return dev and parsed == repr(Plain(spec[1]))
    if t == 'gen':
        return dev and isinstance(parsed, str) and 'generator' in parsed
    if t == 'bytes':
        return True      # only "parses" is required for bytes inside containers
    if t == 'kdict':
        return isinstance(parsed, dict)
    return False


def has(spec, kinds):
    if spec[0] in kinds:
        return True
    if spec[0] in ('list', 'tuple', 'set', 'gen'):
        return any(has(x, kinds) for x in spec[1])
    if spec[0] == 'dict':
        return any(has(v, kinds) for _, v in spec[1])
    if spec[0] == 'kdict':
        return any(has(k, kinds) or has(v, kinds) for k, v in spec[1])
    if spec[0] in ('todict', 'asdict', 'jsontext'):
        return has(spec[1], kinds)
    return False


def nonfinite(spec):
    if spec[0] == 'float':
        f = float(spec[1])
        return math.isnan(f) or math.isinf(f)
    if spec[0] in ('list', 'tuple', 'set', 'gen'):
        return any(nonfinite(x) for x in spec[1])
    if spec[0] == 'dict':
        return any(nonfinite(v) for _, v in spec[1])
    if spec[0] in ('todict', 'asdict'):
        return nonfinite(spec[1])
    return False


def unorderable_keys(spec):
    """mapping somewhere whose keys cannot be sorted together (D17)"""
    if spec[0] == 'kdict':
        ks = [build(k) for k, _ in spec[1]]
        try:
            sorted(ks)
        except TypeError:
            return True
        return any(unorderable_keys(v) for _, v in spec[1])
    if spec[0] in ('list', 'tuple', 'gen'):
        return any(unorderable_keys(x) for x in spec[1])
    if spec[0] == 'dict':
        return any(unorderable_keys(v) for _, v in spec[1])
    if spec[0] in ('todict', 'asdict'):
        return unorderable_keys(spec[1])
    return False


# ---------------------------------------------------------------- strategies

def strategy():
    from hypothesis import strategies as st
    # (drawn by index: Hypothesis puts the repr of a filtered strategy into a per-example event string, and a repr that spells
    # out the long members of STRS cost ~65 KB of retained memory per case - 4.5 GB per thorough shard, see DESIGN 9)
    sstr = st.one_of(st.integers(0, len(STRS) - 1).map(lambda i: STRS[i]), st.text(alphabet='abé<>&"{}[] \nzq9', max_size=8)).map(lambda s: ['str', s])
    sint = st.one_of(st.integers(-5, 5), st.integers(-2 ** 70, 2 ** 70)).map(lambda i: ['int', str(i)])
    sfloat = st.floats(allow_nan=False, allow_infinity=False).map(lambda f: ['float', repr(f)])
    scalar = st.one_of(sstr, sint, sfloat, st.booleans().map(lambda b: ['bool', b]), st.just(['none']))
    key = st.one_of(st.sampled_from(KEYS), st.text(alphabet='abcé<"9zq', max_size=4))

    def dicts(children):
        return st.lists(st.tuples(key, children), max_size=4, unique_by=lambda kv: kv[0]).map(lambda kv: ['dict', [list(x) for x in kv]])
    native = st.recursive(scalar, lambda ch: st.one_of(st.lists(ch, max_size=4).map(lambda l: ['list', l]), dicts(ch)), max_leaves=12)
    hashable = st.one_of(st.sampled_from(['a', 'b', 'é', '<zq9s>']).map(lambda s: ['str', s]), st.integers(2, 50).map(lambda i: ['int', str(i)]))
    objs = st.one_of(
        st.datetimes(min_value=datetime.datetime(1900, 1, 1), max_value=datetime.datetime(2100, 1, 1)).map(lambda d: ['dt', d.isoformat()]),
        st.dates(min_value=datetime.date(1900, 1, 1), max_value=datetime.date(2100, 1, 1)).map(lambda d: ['date', d.isoformat()]),
        st.sampled_from(['2020-01-01', 'iso<zq9i>']).map(lambda s: ['iso', s]), st.integers(0, 9).map(lambda n: ['plain', n]))
    rich = st.recursive(st.one_of(scalar, objs), lambda ch: st.one_of(
        st.lists(ch, max_size=4).map(lambda l: ['list', l]), st.lists(ch, max_size=3).map(lambda l: ['tuple', l]),
        st.lists(hashable, max_size=4, unique_by=lambda s: s[1]).map(lambda l: ['set', l]), dicts(ch),
        dicts(ch).map(lambda d: ['todict', d]), dicts(ch).map(lambda d: ['asdict', d]),
        st.lists(ch, max_size=3).map(lambda l: ['gen', l])), max_leaves=10)
    container = rich.filter(lambda s: s[0] in ('list', 'tuple', 'set', 'dict'))
    cell = st.one_of(sstr, sint, st.floats(-1e6, 1e6).map(lambda f: ['float', repr(f)]), st.booleans().map(lambda b: ['bool', b]), st.just(['none']))
    tkeys = st.lists(st.sampled_from(['a', 'b', 'name', 'é', 'k<zq9h>', 'x y']), min_size=1, max_size=3, unique=True)
    tabular = st.one_of(
        st.lists(st.tuples(st.sampled_from(KEYS), cell), max_size=4, unique_by=lambda kv: kv[0]).map(lambda kv: ['dict', [list(x) for x in kv]]),
        st.lists(cell, max_size=5).map(lambda l: ['list', l]),
        tkeys.flatmap(lambda ks: st.lists(st.lists(cell, min_size=len(ks), max_size=len(ks)), min_size=1, max_size=4).map(
            lambda rows: ['list', [['dict', [[k, c] for k, c in zip(ks, row)]] for row in rows]])),
        st.lists(st.lists(cell, min_size=1, max_size=3).map(lambda l: ['list', l]), min_size=1, max_size=4).map(lambda l: ['list', l]))
    text = st.one_of(
        sstr,
        st.tuples(native.filter(lambda s: s[0] in ('dict', 'list')), st.sampled_from([None, 2])).map(lambda t: ['jsontext', t[0], t[1]]),
        st.sampled_from(['t', 'é', '<zq9t>']).map(lambda s: ['htmltext', s]),
        st.sampled_from(['{x}', '[1, 2', ' {"a": 1}', '{"a": 1}\n', '[]x]', '{}', '[]', '{"a": 1} trailing}', 'x' * 200 + '<html>']).map(lambda s: ['str', s]))
    side = st.one_of(
        st.sampled_from([['float', 'nan'], ['float', 'inf'], ['list', [['float', '-inf'], ['int', '1']]], ['dict', [['a', ['float', 'nan']]]]]),
        st.lists(st.tuples(st.integers(0, 9).map(lambda i: ['int', str(i)]), scalar), max_size=3, unique_by=lambda kv: kv[0][1]).map(lambda kv: ['kdict', [list(x) for x in kv]]),
        st.sampled_from([['kdict', [[['int', '1'], ['str', 'a']], [['str', 'b'], ['int', '2']]]],
                         ['kdict', [[['bool', True], ['int', '1']], [['str', 'True'], ['int', '2']]]],
                         ['list', [['kdict', [[['none'], ['int', '1']], [['str', 'n'], ['int', '2']]]]]]]),
        st.sampled_from([['list', [['bytes', 'ab\xff']]], ['dict', [['b', ['bytes', '']]]]]),
        st.sampled_from([['bytes', ''], ['bytes', 'raw \xff\xfe bytes'], ['bytes', '{"a": 1}'], ['bytes', '<html><body>x</body></html>'], ['bytes', 'plain']]),
        st.sampled_from([['resp', 'direct', 200], ['resp', 'made', 201], ['resp', '', 204]]),
        st.lists(scalar, max_size=3).map(lambda l: ['gen', l]))
    value = st.one_of(text, text, scalar, native, rich, container, tabular, tabular, side, objs)
    renderer = st.sampled_from(['basic', 'basic', 'basic', 'json', 'jsondev', 'stream', 'streamdev', 'jsonp', 'jsonpdev'])
    fmt = st.sampled_from([None, None, 'json', 'html'])
    accept = st.sampled_from([None, '*/*', 'text/html', 'application/json', 'text/html, application/json;q=0.5',
                              'application/json, text/html;q=0.5', 'application/xml', 'image/png', 'text/plain', '',
                              # the same top entry (a type render_basic cannot produce), different second choices
                              'application/xml, text/html;q=0.9', 'application/xml, application/json;q=0.9',
                              'image/png, text/html;q=0.5', 'image/png, application/json;q=0.5',
                              'text/html;q=0.2, application/json;q=0.9', 'text/html;q=0.9, application/json;q=0.2'])
    cb = st.sampled_from([None, None, 'cb', 'zq9cb', 'a.b'])
    return st.tuples(value, renderer, fmt, accept, cb)


# ---------------------------------------------------------------- application

_APP = {}


SHARED = {'rows': [{'id': 1, 'tags': ['a', 'b']}, {'id': 2, 'tags': []}], 'meta': {'hole': None, 'n': 3}}


class _Once(object):
    """to_dict() fails the first time it is asked"""
    def __init__(self):
        self.calls = 0

    def to_dict(self):
        self.calls += 1
        if self.calls == 1:
            raise RuntimeError('not ready yet')
        return {'ready': True}


def shared_history(case, ctx):
    """a long-lived structure returned by an endpoint: a render that stops half-way (an object the renderer refuses, nested inside
    it) must not change how the very same containers are rendered afterwards"""
    renderer, poison, abandon = case['renderer'], case['poison'], case['abandon']
    app, _cell = app_and_cell()
    path = '/shared/' + renderer
    q = 'callback=cb' if renderer == 'jsonp' else ''
    hole = {'plain': Plain(7), 'gen': (i for i in range(3)), 'once': _Once(), 'nan-key': {float('nan'): 1}}[poison]
    SHARED['meta']['hole'] = hole
    SHARED['rows'][1]['tags'] = [hole] if poison != 'nan-key' else []
    try:
        if abandon:
            # the client goes away after the first chunk of the body
            from vlib.wsgi import make_environ
            env = make_environ(path, 'GET', q)
            it = app(env, lambda *a, **k: (lambda data: None))
            try:
                next(iter(it), None)
            except Exception:
                pass
            finally:
                if hasattr(it, 'close'):
                    it.close()
        else:
            call(app, path, query=q)          # whatever it answers: judged by the per-value part, not here
        ctx.requests += 1
    finally:
        SHARED['meta']['hole'] = None
        SHARED['rows'][1]['tags'] = []
    for again in (1, 2):
        r = call(app, path, query=q)
        ctx.requests += 1
        what = 'GET %s?%s after a render of the same structure stopped half-way (%s%s)' % (path, q, poison, ', client gone' if abandon else '')
        if r.exc is not None or r.status != 200:
            ctx.mismatch('escaped' if r.exc is not None else 'json-renderer-status', '%s: %s %r %r' % (what, r.status, r.exc, r.body[:120]), case)
            return
        text = r.body.decode('utf8')
        if renderer == 'jsonp':
            text = text[len('cb('):-2]
        try:
            got = json.loads(text)
        except ValueError as e:
            ctx.mismatch('json-invalid', '%s: %s' % (what, e), case)
            return
        if got != {'rows': [{'id': 1, 'tags': ['a', 'b']}, {'id': 2, 'tags': []}], 'meta': {'hole': None, 'n': 3}}:
            ctx.mismatch('json-roundtrip', '%s: parsed back as %r' % (what, got), case)
            return
    ctx.event('shared-structure-history')
    ctx.nt(['shared', renderer, poison, abandon], sample=False)


MUTABLE = {'todict': ToDict({'n': 0}), 'asdict': AsDict({'n': 0}), 'inlist': [ToDict({'n': 0})]}

# values that compare equal (and hash alike) although their JSON texts differ
EQUAL_FAMILIES = [[['bool', True], ['int', '1'], ['float', '1.0']], [['bool', False], ['int', '0'], ['float', '0.0'], ['float', '-0.0']],
                  [['tuple', [['int', '1'], ['int', '0']]], ['tuple', [['bool', True], ['bool', False]]], ['tuple', [['float', '1.0'], ['float', '0.0']]]],
                  [['str', '1'], ['int', '1']], [['none'], ['bool', False], ['str', '']],
                  [['tuple', []], ['list', []], ['str', '']], [['float', '2.0'], ['int', '2']],
                  [['set', [['int', '2']]], ['set', [['int', '3']]]]]


def equal_values_history(ctx):
    """one renderer object renders many values in its life: equal-but-different values, in every order, each get their own text;
    a long-lived object with a to_dict / asdict hook is rendered from its state at the time of the request"""
    import itertools
    app, cell = app_and_cell()
    for renderer, fmt, cb in (('json', None, None), ('jsondev', None, None), ('basic', 'json', None), ('jsonp', None, None), ('jsonp', None, 'cb'),
                              ('stream', None, None), ('jsonpdev', None, None)):
        for fam in EQUAL_FAMILIES:
            for order in itertools.permutations(fam):
                for spec in order:
                    case = [spec, renderer, fmt, None, cb]
                    ctx.case(case)
                    body(case, ctx)
                    if ctx.violations:
                        return
        ctx.nt(['equal-values', renderer, cb], sample=False)
    for renderer in ('json', 'jsondev', 'basic', 'stream', 'jsonp'):
        for which in ('todict', 'asdict', 'inlist'):
            if renderer == 'basic' and which != 'inlist':
                continue        # (render_basic is only claimed for sized values and text, O10)
            for state in ({'n': 1}, {'n': 2, 'tags': ['a']}, {}, {'n': 1}):
                obj = MUTABLE[which][0] if which == 'inlist' else MUTABLE[which]
                obj.d = dict(state)
                case = {'kind': 'mutable', 'renderer': renderer, 'which': which}
                ctx.case(case)
                r = call(app, '/mutable/%s/%s' % (which, renderer), query='format=json' if renderer == 'basic' else '')
                ctx.requests += 1
                what = 'GET /mutable/%s/%s with the object in state %r' % (which, renderer, state)
                if r.exc is not None or r.status != 200:
                    ctx.mismatch('escaped' if r.exc is not None else 'json-renderer-status', '%s: %s %r' % (what, r.status, r.exc), case)
                    return
                try:
                    got = json.loads(r.body.decode('utf8'))
                except ValueError as e:
                    ctx.mismatch('json-invalid', '%s: %s' % (what, e), case)
                    return
                if got != ([state] if which == 'inlist' else state):
                    ctx.mismatch('json-roundtrip', '%s: parsed back as %r' % (what, got), case)
                    return
            ctx.nt(['mutable', renderer, which], sample=False)
    ctx.event('equal-values-and-mutable-hooks-history')


def text_catalogue():
    """complete: strings an endpoint may return that look like JSON or HTML from one end or both - every opening bracket x closing
    bracket x inside x padding, and documents whose <html> tag sits at the start, late, in capitals or after a doctype"""
    out = []
    for op in '{[':
        for cl in '}]':
            for mid in ('', '"a": 1', '1, 2', 'zq9 not json', '"k": [1, 2', '"a": {"b": []}'):
                for pad in ('', ' ', '\n'):
                    out.append(pad + op + mid + cl + pad)
    out += ['<html><body>x</body></html>', ' <html><p>late', 'x' * 200 + '<html>', '<HTML><BODY>caps</BODY></HTML>', '<!doctype html><html><p>d</p></html>',
            '{"a": 1} trailing', 'leading {"a": 1}', '[1, 2],', '{', ']', '{]', '[}', '""', 'null', '{"a": 1}{"b": 2}', '[1, 2]\n[3]']
    cases = []
    for t in out:
        for accept in (None, 'text/html', 'application/json'):
            cases.append([['str', t], 'basic', None, accept, None])
    return cases


def app_and_cell():
    if not _APP:
        from clastic import Application
        from clastic.render import render_basic, render_json, render_json_dev, JSONRender, JSONPRender
        cell = {}

        def ep():
            """Usage: 90% of {capacity} - %s %(x)s %d <zq9doc> & "quoted" see http://e.test/?a=1&b=2 {0} {#x}{/x}

                indented second paragraph with a lone % at the end %"""
            return build(cell['spec'])

        def ep_plain():
            return build(cell['spec'])
        def ep_shared():
            return SHARED          # one long-lived structure, the very same objects on every request

        def ep_mutable(which):
            return MUTABLE[which]  # long-lived objects with a to_dict / asdict / isoformat hook whose state changes between requests

        # the HTML page of render_basic shows the endpoint's name and docstring: one route with a hostile docstring, one without any
        routes = [('/mutable/<which>/basic', ep_mutable, render_basic), ('/mutable/<which>/json', ep_mutable, render_json),
                  ('/mutable/<which>/jsondev', ep_mutable, render_json_dev), ('/mutable/<which>/stream', ep_mutable, JSONRender(streaming=True)),
                  ('/mutable/<which>/jsonp', ep_mutable, JSONPRender()),
                  ('/basic', ep, render_basic), ('/basicplain', ep_plain, render_basic),
                  ('/shared/basic', ep_shared, render_basic), ('/shared/json', ep_shared, render_json), ('/shared/jsondev', ep_shared, render_json_dev),
                  ('/shared/stream', ep_shared, JSONRender(streaming=True)), ('/shared/jsonp', ep_shared, JSONPRender()), ('/json', ep, render_json), ('/jsondev', ep, render_json_dev),
                  ('/stream', ep, JSONRender(streaming=True)), ('/streamdev', ep, JSONRender(streaming=True, dev_mode=True)),
                  ('/jsonp', ep, JSONPRender()), ('/jsonpdev', ep, JSONPRender(dev_mode=True))]
        _APP['app'] = Application(routes)
        _APP['cell'] = cell
    return _APP['app'], _APP['cell']


class Scan(HTMLParser):
    def __init__(self):
        HTMLParser.__init__(self, convert_charrefs=True)
        self.bad, self.data, self.tags, self.skip = [], [], [], 0

    def handle_starttag(self, tag, attrs):
        self.tags.append(tag)
        if MARK in tag or any(MARK in (k or '') or MARK in (v or '') for k, v in attrs):
            self.bad.append(tag)
        if tag in ('style', 'script'):
            self.skip += 1

    def handle_endtag(self, tag):
        if tag in ('style', 'script') and self.skip:
            self.skip -= 1

    def handle_data(self, d):
        if not self.skip:
            self.data.append(d)

    def handle_comment(self, d):
        if MARK in d:
            self.bad.append('comment')


def is_tabular(spec):
    def scalar(s):
        return s[0] in ('str', 'int', 'float', 'bool', 'none')
    if spec[0] == 'dict':
        return all(scalar(v) for _, v in spec[1])
    if spec[0] in ('list', 'tuple'):
        items = spec[1]
        if all(scalar(x) for x in items):
            return True
        if items and all(x[0] == 'dict' and all(scalar(v) for _, v in x[1]) for x in items):
            return len(set(tuple(k for k, _ in x[1]) for x in items)) == 1
        if items and all(x[0] in ('list', 'tuple') and x[1] and all(scalar(v) for v in x[1]) for x in items):
            # O10: the third-party builder pads short rows in place (row.extend) and therefore rejects ragged data whose
            # short rows are tuples; such values are not tabular for it
            width = max(len(x[1]) for x in items)
            return not any(x[0] == 'tuple' and len(x[1]) < width for x in items)
    return False


def cells(spec):
    if spec[0] in ('str', 'int', 'float', 'bool', 'none'):
        yield str(build(spec))
    elif spec[0] == 'dict':
        for k, v in spec[1]:
            yield k
            for c in cells(v):
                yield c
    elif spec[0] in ('list', 'tuple'):
        for x in spec[1]:
            for c in cells(x):
                yield c


def wants_html(fmt, accept):
    """does the request ask for HTML?  True / False / None (undetermined by the statement)"""
    if fmt == 'html':
        return True
    if fmt == 'json':
        return False
    if accept in ('text/html', 'text/html, application/json;q=0.5', 'application/xml, text/html;q=0.9', 'image/png, text/html;q=0.5',
                  'text/html;q=0.9, application/json;q=0.2'):
        return True
    if accept in ('application/xml, application/json;q=0.9', 'image/png, application/json;q=0.5', 'text/html;q=0.2, application/json;q=0.9'):
        return False
    if accept in (None, '', 'application/json', 'application/json, text/html;q=0.5', 'application/xml', 'image/png', 'text/plain'):
        return False
    return None


def body(case, ctx):
    spec, renderer, fmt, accept, cb = case
    rc = [spec, renderer, fmt, accept, cb]
    ctx.current = rc
    app, cell = app_and_cell()
    cell['spec'] = spec
    q = []
    if fmt and renderer == 'basic':
        q.append('format=' + fmt)
    if cb and renderer.startswith('jsonp'):
        q.append('callback=' + cb)
    hdrs = {} if accept is None else {'Accept': accept}
    top = spec[0]
    is_text = top in ('str', 'jsontext', 'htmltext', 'bytes')
    html_req = wants_html(fmt, accept) if renderer == 'basic' else False
    if renderer == 'basic' and not is_text and top not in ('resp',) and html_req is not False and not is_tabular(spec):
        # O10: only tabular shapes go through the HTML path
        q = [x for x in q if not x.startswith('format=')] + ['format=json']
        html_req = False
    r = call(app, '/' + renderer, query='&'.join(q), headers=hdrs)
    ctx.requests += 1
    what = 'GET /%s?%s Accept=%r value %s' % (renderer, '&'.join(q), accept, json.dumps(spec)[:160])
    ctx.event('renderer-' + renderer)
    ctx.event('value-' + top)
    dev = renderer in ('basic', 'jsondev', 'streamdev', 'jsonpdev')
    unord = unorderable_keys(spec) and top not in ('jsontext',)
    if r.exc is not None:
        if isinstance(r.exc, TypeError) and not dev and (has(spec, ('plain', 'gen')) or top in ('plain', 'gen')) \
                and (renderer == 'stream' or (renderer == 'jsonp' and cb)):
            # non-dev streaming: the documented TypeError for unknown objects surfaces while the body is iterated
            ctx.event('nondev-unknown-object-stream-typeerror')
            return
        if unorderable_keys(spec) and not is_text and isinstance(r.exc, TypeError):
            ctx.mismatch('unorderable-mapping-keys', '%s: %r while streaming (keys that cannot be sorted together)' % (what, r.exc), rc)
            return
        ctx.mismatch('escaped', '%s: %r' % (what, r.exc), rc)
        return
    mime = (r.header('Content-Type') or '').split(';')[0].strip()
    if top == 'resp':
        if r.status != spec[2] or r.body != spec[1].encode() or mime != 'text/x-zq':
            ctx.mismatch('response-not-passed-through', '%s: got %s %r %s' % (what, r.status, r.body[:40], mime), rc)
        return
    if unord and not is_text:
        if r.status != 200:
            ctx.mismatch('unorderable-mapping-keys', '%s: status %s (keys that cannot be sorted together)' % (what, r.status), rc)
        ctx.event('side-unorderable-keys')
        return
    # ---- JSON renderers
    if renderer != 'basic':
        unknown = has(spec, ('plain', 'gen')) or top in ('plain', 'gen')
        if r.status != 200:
            if not dev and unknown and r.status == 500:
                ctx.event('nondev-unknown-object-500')
                return
            ctx.mismatch('json-renderer-status', '%s: status %s' % (what, r.status), rc)
            return
        text = r.body.decode('utf8')
        if cb and renderer.startswith('jsonp'):
            if not (text.startswith(cb + '(') and text.endswith(');')) or mime != 'application/javascript':
                ctx.mismatch('jsonp-wrapper', '%s: body %r (%s)' % (what, text[:60], mime), rc)
                return
            text = text[len(cb) + 1:-2]
        elif mime != 'application/json':
            ctx.mismatch('json-mimetype', '%s: Content-Type %s' % (what, mime), rc)
            return
        check_json(ctx, text, spec, dev, what, rc)
        nt(ctx, spec, rc)
        return
    # ---- render_basic
    if r.status != 200:
        ctx.mismatch('basic-status', '%s: status %s %r' % (what, r.status, r.body[:120]), rc)
        return
    if is_text:
        raw = build(spec)
        rawb = raw if isinstance(raw, bytes) else raw.encode('utf8')
        if r.body != rawb:
            ctx.mismatch('text-body-changed', '%s: body %r' % (what, r.body[:80]), rc)
            return
        try:
            as_text = rawb.decode('utf8')
        except UnicodeDecodeError:
            as_text = None
        verdict = None
        stripped = as_text.strip() if as_text is not None else ''
        bracketed = (stripped[:1], stripped[-1:]) in (('{', '}'), ('[', ']')) and len(stripped) > 1
        if as_text is not None and as_text == stripped and bracketed:
            try:
                verdict = 'application/json' if isinstance(json.loads(as_text), (dict, list)) else None
            except ValueError:
                verdict = 'ambiguous'          # looks like JSON from both ends but is not: either label
        elif as_text is not None and bracketed:
            verdict = 'ambiguous'              # JSON padded with whitespace
        if verdict is None:
            head = rawb[:168]
            if b'<html' in head:
                verdict = 'text/html'
            elif b'<html' in rawb.lower() or b'<HTML' in rawb:
                verdict = 'ambiguous-html'
            else:
                verdict = 'text/plain'
        ok = {'ambiguous': mime in ('application/json', 'text/plain', 'text/html'),
              'ambiguous-html': mime in ('text/html', 'text/plain')}.get(verdict, mime == verdict)
        if not ok:
            ctx.mismatch('text-label-' + verdict.split('/')[-1], '%s: labelled %s, expected %s' % (what, mime, verdict), rc)
            return
        ctx.event('text-' + verdict)
        if top != 'str' or spec[1] not in ('plain',):
            nt(ctx, spec, rc, force=True)
        return
    if top in ('int', 'float', 'bool', 'none', 'dt', 'date', 'iso', 'plain', 'gen', 'todict', 'asdict'):
        ctx.event('basic-unsized-200')
        nt(ctx, spec, rc, force=True)
        return
    if html_req and is_tabular(spec):
        if mime != 'text/html':
            ctx.mismatch('table-not-html', '%s: html requested for a tabular value, got %s' % (what, mime), rc)
            return
        page = r.body.decode('utf8')
        s = Scan()
        s.feed(page)
        s.close()
        if s.bad:
            ctx.mismatch('table-markup-injected', '%s: value introduced markup %r' % (what, s.bad[:3]), rc)
            return
        if 'table' not in s.tags:
            ctx.mismatch('table-missing', '%s: no <table> in the page' % what, rc)
            return
        data = ''.join(s.data)
        for c in cells(spec):
            if c.strip() and c not in data and ' '.join(c.split()) not in ' '.join(data.split()):
                ctx.mismatch('table-cell-missing', '%s: cell text %r not in the table' % (what, c[:60]), rc)
                return
        # the page is the table of *this* value: one document, and rendering the same value again gives the same page
        # (nothing of an earlier response - earlier tables, closers - may pile up in a later one)
        if s.tags.count('html') != 1 or s.tags.count('body') > 1:
            ctx.mismatch('table-page-not-one-document', '%s: the page has %d <html> and %d <body> start tags'
                         % (what, s.tags.count('html'), s.tags.count('body')), rc)
            return
        r2 = call(app, '/' + renderer, query='&'.join(q), headers=hdrs)
        ctx.requests += 1
        if r2.exc is not None or r2.status != r.status or r2.body != r.body:
            s2 = Scan()
            s2.feed(r2.body.decode('utf8', 'replace'))
            ctx.mismatch('table-differs-on-repeat', '%s: rendering the same value again gives another page (%d bytes, %d tables; first %d bytes, %d tables)'
                         % (what, len(r2.body), s2.tags.count('table'), len(r.body), s.tags.count('table')), rc)
            return
        r3 = call(app, '/basicplain', query='&'.join(q), headers=hdrs)
        ctx.requests += 1
        if r3.exc is not None or r3.status != 200 or (r3.header('Content-Type') or '').split(';')[0].strip() != 'text/html' or b'<table' not in r3.body:
            ctx.mismatch('table-not-html', '%s: the same value from an endpoint without a docstring: %s %r %r'
                         % (what, r3.status, r3.exc, r3.header('Content-Type')), rc)
            return
        ctx.event('basic-html-table')
        nt(ctx, spec, rc, force=True)
        return
    if html_req is None and mime == 'text/html':
        ctx.event('basic-undetermined-format')
        return
    if mime != 'application/json':
        ctx.mismatch('basic-not-json', '%s: expected JSON, got %s' % (what, mime), rc)
        return
    check_json(ctx, r.body.decode('utf8'), spec, True, what, rc)
    nt(ctx, spec, rc)


def check_json(ctx, text, spec, dev, what, rc):
    try:
        parsed = json.loads(text)
    except ValueError as e:
        ctx.mismatch('json-invalid', '%s: output does not parse: %s; %r' % (what, e, text[:80]), rc)
        return
    if nonfinite(spec) or has(spec, ('bytes', 'kdict')) or spec[0] in ('jsontext', 'htmltext'):
        if spec[0] in ('jsontext', 'htmltext'):
            if parsed != build(spec):
                ctx.mismatch('json-text-roundtrip', '%s: string came back as %r' % (what, parsed), rc)
        else:
            ctx.event('side-parses-only')
        return
    if not dev and has(spec, ('plain', 'gen')):
        return
    if not equiv(parsed, spec, dev):
        ctx.mismatch('json-roundtrip', '%s: parsed back %r' % (what, parsed if len(repr(parsed)) < 200 else repr(parsed)[:200]), rc)


def nt(ctx, spec, rc, force=False):
    flat = spec[0] == 'dict' and all(v[0] in ('str', 'int', 'float', 'bool', 'none') for _, v in spec[1])
    if force or not flat:
        ctx.nt(rc, sample=len(ctx.samples) < 3)


def shards(tier, seed):
    n = 320 if tier == 'quick' else 70000
    return [{'n': n} for _ in range(16)]


def run_shard(spec, ctx):
    if ctx.shard == 0:
        for renderer in ('json', 'jsondev', 'stream', 'jsonp', 'basic'):
            for poison in ('plain', 'gen', 'once', 'nan-key'):
                for abandon in (False, True):
                    case = {'kind': 'shared', 'renderer': renderer, 'poison': poison, 'abandon': abandon}
                    ctx.case(case)
                    try:
                        shared_history(case, ctx)
                    except Exception as e:
                        ctx.classify_exc(e, case, 'shared')
    if ctx.shard == 2:
        for case in text_catalogue():
            ctx.case(case)
            try:
                body(case, ctx)
            except Exception as e:
                ctx.classify_exc(e, case, 'case')
    if ctx.shard == 1:
        try:
            equal_values_history(ctx)
        except Exception as e:
            ctx.classify_exc(e, {'kind': 'mutable'}, 'shared')
    ctx.hyp(strategy(), body, spec['n'], kind='case')
    if 'unorderable-mapping-keys' in ctx.known_sigs and ctx.shard == 0:
        rep = [['kdict', [[['int', '1'], ['str', 'a']], [['str', 'b'], ['int', '2']]]], 'basic', None, None, None]
        before = ctx.known['unorderable-mapping-keys']
        try:
            body(rep, ctx)
        except Exception:
            pass
        if ctx.known['unorderable-mapping-keys'] == before:
            ctx.note('recorded finding unorderable-mapping-keys no longer reproduces on its representative')


def replay(case, kind, ctx):
    if isinstance(case, dict) and case.get('kind') == 'shared':
        shared_history(case, ctx)
        return
    if isinstance(case, dict) and case.get('kind') == 'mutable':
        equal_values_history(ctx)
        return
    if case[0][0] in ('bool', 'int', 'float', 'tuple', 'none', 'str', 'set', 'list') and case[1] != 'basic' or case[2] == 'json':
        equal_values_history(ctx)       # (a value that may have been judged as part of the equal-values history: run that too)
        if ctx.violations:
            return
    body(case, ctx)
