"""C09 - error responses: right status, negotiated format, everything escaped.
Oracles: hand-written RFC status table, own Accept negotiation, stdlib json / xml.etree / html.parser."""
import json, re, html
from html.parser import HTMLParser
import xml.etree.ElementTree as ET
from vlib.wsgi import call

INFO = {
    'level': 'exploration',
    'rule': ('(error class from clastic.errors.__all__ or base class with explicit code, raised or returned, default / '
             'overridden code, message, detail, error_type drawn from markup, quotes, ampersands, braces, format / ashes '
             'template syntax, non-ASCII and control characters, Accept header, default / debug handler / a handler that hands the error back so that the fallback rendering of the framework answers) plus 404s for '
             'marked-up paths / queries / headers / cookies and uncaught exceptions whose message and locals carry a '
             'marker tag. Complete in every tier: the status matrix (class x raise / return x breaking / non-breaking x 5 Accept x 3 '
             'handlers) and the field catalogue (65 texts x 3 fields x 4 formats x production / debug handler). Non-trivial = a dynamic field contains a character that needs escaping in the negotiated '
             'format; distinct cases counted.'),
    'assumptions': ['Accept: a supported type\'s quality is that of the most specific matching range; ties, ranges with extra '
                    'parameters, unparsable q-values and malformed ranges make the choice uncertain and every consistent outcome is accepted',
                    'XML well-formedness only for text XML 1.0 can represent; escaping checked for all'],
}

STATUS = {'BadRequest': 400, 'Unauthorized': 401, 'PaymentRequired': 402, 'Forbidden': 403, 'NotFound': 404,
          'MethodNotAllowed': 405, 'NotAcceptable': 406, 'ProxyAuthenticationRequired': 407, 'RequestTimeout': 408,
          'Conflict': 409, 'Gone': 410, 'LengthRequired': 411, 'PreconditionFailed': 412, 'RequestEntityTooLarge': 413,
          'RequestURITooLong': 414, 'UnsupportedMediaType': 415, 'RequestedRangeNotSatisfiable': 416,
          'ExpectationFailed': 417, 'ImATeapot': 418, 'UnprocessableEntity': 422, 'UpgradeRequired': 426,
          'PreconditionRequired': 428, 'TooManyRequests': 429, 'RequestHeaderFieldsTooLarge': 431,
          'UnavailableForLegalReasons': 451, 'InternalServerError': 500, 'NotImplemented': 501, 'BadGateway': 502,
          'ServiceUnavailable': 503, 'GatewayTimeout': 504, 'HTTPVersionNotSupported': 505,
          'ContextualNotFound': 404, 'ContextualInternalServerError': 500}
FORMATS = {'text/html': 'html', 'application/json': 'json', 'application/xml': 'xml', 'text/plain': 'text'}
MARK = 'zq9'
NASTY = ['<zq9a>', '"><zq9b x="', "'><zq9c y='", '</script><zq9d>', '</title><zq9e>', '<!--zq9f-->', '&lt;zq9g&gt;', '&amp;', '&',
         '{zq9h}', '{#zq9i}{/zq9i}', '{{zq9j}}', '{@iterate key=zq9k}{/iterate}', '%s %d', '{0}', '{code}', '{message}', '{detail!r}',
         'é☃ 中文', 'tab\there', 'nl\nline', 'cr\rline', 'bell\x07', 'nul\x00byte', 'esc\x1b[31m', ' sep', ']]>', '<![CDATA[zq9l]]>',
         '<?zq9m?>', '<zq9n/>', 'a' * 300 + '<zq9o>', 'http://example.test/"><zq9p>', "http://e.test/'onmouseover='zq9q", 'plain words',
         '<b>bold</b>', '"quoted"', "it's", '\\', '`', '<', '>', '&#60;zq9r&#62;', '￾', '<zq9s onload=alert(1)>', '${zq9t}', '<%zq9u%>']
ACCEPTS = [None, '', '*/*', 'text/html', 'application/json', 'application/xml', 'text/plain', 'image/png', 'text/*', 'application/*',
           'text/html;q=0.1, */*;q=0.9', '*/*;q=0.1, text/plain', 'text/*;q=0.5, application/json;q=0.4',
           'application/*, text/html;q=0.9', 'text/html;q=0, */*', 'text/html;level=1', 'text/html;q=abc', '*/*;q=0',
           'text/plain;q=0.5, text/html;q=0.5', 'application/json;q=1.0;ext=1', 'TEXT/HTML', 'text/html ; q=0.2 , application/xml ; q=0.3',
           '*', 'text', 'garbage/', 'application/json;charset=utf-8', ',,,', 'text/html;q=1.5', 'a/b;q=0.9,text/plain;q=0.0,*/*;q=0.2',
           'application/xml;q=0.9, application/json;q=0.8, text/html;q=0.7', 'text/html;q=0.001', 'application/json;q=0.000',
           'image/*;q=1, text/plain;q=0.3', 'application/xhtml+xml,text/html;q=0.9,*/*;q=0.8', 'text/x-dvi; q=0.8, text/x-c']


def negotiate(accept):
    """-> set of formats that may legitimately be chosen ('html','json','xml','text')"""
    if accept is None:
        return {'text'}     # no header: nothing is asked for; plain is the documented default
    ranges = []
    malformed = False
    for part in accept.split(','):
        part = part.strip()
        if not part:
            continue
        bits = [b.strip() for b in part.split(';')]
        mt = bits[0].lower()
        q, extra, unsure = 1.0, False, False
        for b in bits[1:]:
            if b.lower().replace(' ', '').startswith('q='):
                v = b.split('=', 1)[1].strip()
                if re.match(r'^(0(\.\d{1,3})?|1(\.0{1,3})?)$', v):
                    q = float(v)
                else:
                    unsure = True
            elif b:
                extra = True
        if mt.count('/') != 1 or not all(mt.split('/')):
            malformed = True
            continue
        ranges.append((mt, q, extra or unsure))
    certain, uncertain = {}, set()
    for mime, fmt in FORMATS.items():
        typ = mime.split('/')[0]
        best = None
        for mt, q, unsure in ranges:
            spec = 3 if mt == mime else 2 if mt == typ + '/*' else 1 if mt == '*/*' else 0
            if not spec:
                continue
            if best is None or spec > best[0]:
                best = (spec, q, unsure, False)
            elif spec == best[0] and q != best[1]:
                best = (spec, max(q, best[1]), True, True)
        if best is None:
            continue
        if best[2]:
            uncertain.add(fmt)
        elif best[1] > 0:
            certain[fmt] = best[1]
    allowed = set(uncertain)
    if certain:
        top = max(certain.values())
        allowed |= {f for f, q in certain.items() if q == top}
        # a lower-quality certain type can still win if an uncertain one is dropped: only when nothing certain beats it
    if not certain or uncertain or malformed:
        allowed.add('text')
    if malformed:
        allowed |= set(FORMATS.values())
    if uncertain:
        # if the uncertain ones are not counted the best certain one wins (already in), if counted any of them may
        pass
    return allowed


class PageScan(HTMLParser):
    def __init__(self):
        HTMLParser.__init__(self, convert_charrefs=True)
        self.bad = []
        self.data = []
        self.stack = []
        self.attr_values = []

    def handle_starttag(self, tag, attrs):
        if MARK in tag:
            self.bad.append('tag <%s>' % tag)
        for k, v in attrs:
            if MARK in (k or ''):
                self.bad.append('attribute %s on <%s>' % (k, tag))
            self.attr_values.append(v)
        if tag in ('script', 'style'):
            self.stack.append(tag)

    def handle_startendtag(self, tag, attrs):
        self.handle_starttag(tag, attrs)
        if tag in ('script', 'style') and self.stack:
            self.stack.pop()

    def handle_endtag(self, tag):
        if tag in ('script', 'style') and self.stack:
            self.stack.pop()

    def handle_data(self, d):
        if self.stack and MARK in d:
            self.bad.append('marker inside <%s>' % self.stack[-1])
        self.data.append(d)

    def handle_comment(self, d):
        if MARK in d:
            self.bad.append('comment with marker')

    def handle_pi(self, d):
        if MARK in d:
            self.bad.append('processing instruction with marker')

    def handle_decl(self, d):
        if MARK in d:
            self.bad.append('declaration with marker')

    def unknown_decl(self, d):
        if MARK in d:
            self.bad.append('unknown declaration with marker')


def _unq(a):
    from urllib.parse import unquote
    try:
        return unquote(a)
    except Exception:
        return a


def scan_html(text):
    p = PageScan()
    p.feed(text)
    p.close()
    return p


def xml_ok_text(s):
    return all(c in '\t\n\r' or (' ' <= c <= '퟿') or ('' <= c <= '�') or c > '￿' for c in s)


def norm_nl(s):
    return s.replace('\r\n', '\n').replace('\r', '\n')


def needs_escaping(fmt, texts):
    blob = ''.join(t for t in texts if isinstance(t, str))
    if fmt in ('html', 'xml'):
        return any(c in blob for c in '<>&"\'')
    if fmt == 'json':
        return any(c in blob for c in '"\\') or any(ord(c) < 32 for c in blob)
    return False


def check_error_body(ctx, r, fields, accept, rc, what, strict_fields=True, dynamic=(), html_fields=True):
    """fields: dict code/message/detail/error_type as given (None = not given -> class default unknown)"""
    ctype = r.header('Content-Type') or ''
    mime = ctype.split(';')[0].strip().lower()
    fmt = FORMATS.get(mime)
    if fmt is None:
        ctx.mismatch('content-type-unknown', '%s: Content-Type %r is none of the four formats' % (what, ctype), rc)
        return None
    allowed = negotiate(accept)
    if fmt not in allowed:
        ctx.mismatch('negotiation', '%s: Accept %r -> %s, acceptable by the statement: %s' % (what, accept, fmt, sorted(allowed)), rc)
        return fmt
    raw = r.body
    if (r.header('Content-Encoding') or '').lower() == 'gzip':
        import gzip as _gzip
        try:
            raw = _gzip.decompress(raw)
        except Exception as e:
            ctx.mismatch('body-not-as-labelled', '%s: Content-Encoding gzip but the body does not decompress (%r)' % (what, e), rc)
            return fmt
    try:
        text = raw.decode('utf-8')
    except UnicodeDecodeError as e:
        ctx.mismatch('body-not-utf8', '%s: %r' % (what, e), rc)
        return fmt
    given = dict((k, v) for k, v in fields.items() if v is not None)
    if fmt == 'json':
        try:
            d = json.loads(text)
        except ValueError as e:
            ctx.mismatch('json-invalid', '%s: body labelled JSON does not parse: %s' % (what, e), rc)
            return fmt
        if not isinstance(d, dict) or not all(k in d for k in ('code', 'message', 'detail', 'error_type')):
            ctx.mismatch('json-keys', '%s: JSON body lacks code/message/detail/error_type: %r' % (what, sorted(d) if isinstance(d, dict) else d), rc)
            return fmt
        for k, v in given.items():
            if strict_fields and d.get(k) != v:
                ctx.mismatch('json-field', '%s: JSON %s is %r, given %r' % (what, k, d.get(k), v), rc)
    elif fmt == 'xml':
        texts = [str(v) for v in given.values()] + [str(t) for t in dynamic if t is not None]
        try:
            root = ET.fromstring(text)
        except ET.ParseError as e:
            if all(xml_ok_text(t) for t in texts):
                ctx.mismatch('xml-malformed', '%s: XML body is not well formed: %s' % (what, e), rc)
            else:
                ctx.event('xml-unrepresentable-text')
                if MARK in re.sub(r'&lt;|&gt;|&amp;|&quot;|&#x27;', '', ''.join(re.findall(r'<[^>]*>', text))):
                    ctx.mismatch('xml-markup-injected', '%s: marker inside XML markup' % what, rc)
            return fmt
        names = [el.tag for el in root.iter()]
        if any(MARK in n for n in names) or any(MARK in k for el in root.iter() for k in el.attrib):
            ctx.mismatch('xml-markup-injected', '%s: input created XML elements/attributes %r' % (what, names), rc)
            return fmt
        if strict_fields:
            for k, v in given.items():
                el = root.find(k)
                got = (el.text or '') if el is not None else None
                if got is None or norm_nl(got) != norm_nl(str(v)):
                    ctx.mismatch('xml-field', '%s: XML <%s> is %r, given %r' % (what, k, got, v), rc)
    elif fmt == 'html':
        p = scan_html(text)
        if p.bad:
            ctx.mismatch('html-markup-injected', '%s: input introduced markup: %s' % (what, p.bad[:3]), rc)
            return fmt
        # a marked text may sit inside an attribute value (the link of a link-style error type) - but then whole: a value that
        # holds only a *piece* of a given text means the text broke out of its attribute and the rest became attributes
        wholes = [norm_nl(str(x)) for x in list(dynamic) + list(given.values()) if x is not None and MARK in str(x)]
        for a in p.attr_values:
            if a and MARK in a and not any(w in norm_nl(a) or w in norm_nl(_unq(a)) for w in wholes):
                ctx.mismatch('html-markup-injected', '%s: attribute value %r holds a fragment of a given text (given %r)' % (what, a[:60], wholes[:2]), rc)
                return fmt
        data = ''.join(p.data)
        for k, v in given.items():
            if k == 'code' or not strict_fields or not html_fields:
                continue
            if str(v) and str(v) not in data and str(v) not in [a for a in p.attr_values if a]:
                # NUL and friends are passed through; html.parser replaces nothing, so exact containment is expected
                ctx.mismatch('html-field-missing', '%s: %s %r does not appear as character data' % (what, k, v), rc)
    else:
        for k, v in given.items():
            if strict_fields and str(v) and str(v) not in text:
                ctx.mismatch('text-field-missing', '%s: %s %r not in plain body' % (what, k, v), rc)
    return fmt


# ------------------------------------------------------------------ cases

def strategy():
    from hypothesis import strategies as st
    from clastic import errors
    names = list(errors.__all__) + ['HTTPException']
    text = st.one_of(st.sampled_from(NASTY), st.sampled_from(NASTY),
                     st.lists(st.sampled_from(NASTY), min_size=2, max_size=3).map(' '.join),
                     st.text(alphabet='ab<>&"\'{}%é\n\t\x01 zq9/=', min_size=1, max_size=12))
    opt = lambda s: st.one_of(st.none(), s)
    http = st.fixed_dictionaries({
        'kind': st.just('http'), 'cls': st.sampled_from(names), 'how': st.sampled_from(['raise', 'return']),
        'detail': opt(text), 'message': opt(text), 'error_type': opt(text), 'code': opt(st.sampled_from([400, 418, 499, 500, 599, 404])),
        'accept': st.sampled_from(ACCEPTS), 'debug': st.sampled_from([False, True, False, True, 'fallback']), 'method': st.sampled_from(['GET', 'GET', 'POST']),
        'preset': st.sampled_from([None, None, None, 'text/html', 'application/json', 'application/xml', 'text/plain', 'image/png']),
        # the other documented constructor argument: a complete Content-Type, spelled exactly as the framework itself would
        'preset_ct': st.sampled_from([None, None, None, 'application/json', 'text/html; charset=utf-8', 'application/xml; charset=utf-8',
                                      'text/plain; charset=utf-8', 'application/json; charset=utf-8', 'text/html']),
        'stack': st.sampled_from([None, None, None, 'gzip', 'cache', 'gzip+cache']),
        'reuse': st.sampled_from([None, None, 'text/html', 'application/json', 'application/xml']),
        # an error that does not end the routing (is_breaking=False): with no later route it is the final answer all the same
        'nb': st.sampled_from([False, False, True]),
    })
    nf = st.fixed_dictionaries({
        'kind': st.just('notfound'), 'path': st.lists(text.map(lambda s: s.replace('/', '|').replace('\n', ' ').replace('\r', ' ').replace('\x00', '')),
                                                      min_size=1, max_size=2),
        'query': st.sampled_from(['', 'q=<zq9v>', 'a="><zq9w>', '%3Czq9x%3E=1', "k='><zq9y>"]),
        'header': opt(st.sampled_from(NASTY[:12])), 'cookie': opt(st.sampled_from(['c=<zq9z>', 'k="><zq9aa>"', "s='<zq9ab>'"])),
        'accept': st.sampled_from(ACCEPTS), 'debug': st.sampled_from([False, True, False, True, 'fallback']), 'method': st.sampled_from(['GET', 'POST']),
        'stack': st.sampled_from([None, None, None, 'gzip', 'cache', 'gzip+cache']),
    })
    uncaught = st.fixed_dictionaries({
        'kind': st.just('uncaught'), 'exc': st.sampled_from(['ValueError', 'KeyError', 'RuntimeError', 'Custom', 'UnicodeError', 'AssertionError']),
        'msg': text, 'local': text, 'accept': st.sampled_from(ACCEPTS), 'debug': st.sampled_from([False, True, False, True, 'fallback']),
        'pathseg': text.map(lambda s: s.replace('/', '|').replace('\n', ' ').replace('\r', ' ').replace('\x00', '')),
    })
    return st.one_of(http, http, nf, uncaught)


class CustomErr(Exception):
    pass


def make_app(case, cell):
    from clastic import Application, Route, Response, errors

    def ep_http():
        c = cell['case']
        cls = getattr(errors, c['cls'])
        kw = {}
        for k in ('message', 'error_type', 'code'):
            if c.get(k) is not None:
                kw[k] = c[k]
        if c['cls'] == 'HTTPException' and 'code' not in kw:
            kw['code'] = 500
        if c.get('nb'):
            kw['is_breaking'] = False
        if c.get('preset'):
            kw['mimetype'] = c['preset']          # documented constructor argument
        elif c.get('preset_ct'):
            kw['content_type'] = c['preset_ct']   # likewise
        if cell.get('reuse_obj') is not None:
            e = cell['reuse_obj']                 # the very instance that was rendered for the previous request
        else:
            e = cls(c.get('detail'), **kw) if c['cls'] != 'MethodNotAllowed' else cls(None, c.get('detail'), **kw)
        cell['error'] = e
        if c['how'] == 'raise':
            raise e
        return e

    def ep_uncaught(seg):
        c = cell['case']
        secret_local = c['local']           # noqa: F841  (shows up among the frame's locals on debug pages)
        zq9_local_marker = '<zq9loc>' + c['local']   # noqa: F841
        exc = {'ValueError': ValueError, 'KeyError': KeyError, 'RuntimeError': RuntimeError, 'Custom': CustomErr,
               'UnicodeError': UnicodeError, 'AssertionError': AssertionError}[c['exc']]
        raise exc(c['msg'])
    # the response-processing built-in middlewares at application level: they must leave error responses alone
    mws = []
    if case.get('stack'):
        from clastic.middleware import GzipMiddleware, HTTPCacheMiddleware
        mws = [{'gzip': GzipMiddleware, 'cache': HTTPCacheMiddleware}[n]() for n in case['stack'].split('+')]
    if case['debug'] == 'fallback':
        # a handler that renders nothing itself: the framework's fallback rendering negotiates the format
        from clastic.errors import ErrorHandler

        class HandsBack(ErrorHandler):
            def render_error(self, request, _error, **kwargs):
                raise _error
        return Application([Route('/http', ep_http), Route('/boom/<seg>', ep_uncaught)], error_handler=HandsBack(), middlewares=mws)
    return Application([Route('/http', ep_http), Route('/boom/<seg>', ep_uncaught)], debug=case['debug'], middlewares=mws)


_apps = {}


def body(case, ctx):
    akey = (case['debug'], case.get('stack'))
    cell = _apps.setdefault(('cell',) + akey, {})
    app = _apps.get(akey)
    if app is None:
        app = _apps[akey] = make_app(case, cell)
    cell['case'] = case
    accept = case['accept']
    hdrs = {} if accept is None else {'Accept': accept}
    if 'gzip' in (case.get('stack') or ''):
        hdrs['Accept-Encoding'] = 'gzip'
    if 'cache' in (case.get('stack') or ''):
        hdrs['If-None-Match'] = '*'             # a conditional request: an error is never "not modified"
    if case.get('stack'):
        ctx.event('behind-' + case['stack'])
    rc = case
    kind = case['kind']
    ctx.event('kind-' + kind + ('-fallback' if case['debug'] == 'fallback' else '-debug' if case['debug'] else ''))
    if kind == 'http':
        cell['reuse_obj'] = None
        if case.get('reuse') and not case['cls'].startswith('Contextual'):
            # an application-level error object (e.g. a module constant) raised for two requests in a row: first for a client
            # that gets another format, then for this one
            call(app, '/http', case['method'], headers={'Accept': case['reuse']})
            cell['reuse_obj'] = cell.get('error')
            ctx.requests += 1
            ctx.event('reused-error-instance')
        r = call(app, '/http', case['method'], headers=hdrs)
        cell['reuse_obj'] = None
        ctx.requests += 1
        what = '%s %s %s(detail=%r, message=%r, error_type=%r, code=%r)' % (case['method'], case['how'], case['cls'], case.get('detail'),
                                                                           case.get('message'), case.get('error_type'), case.get('code'))
        if r.exc is not None:
            ctx.mismatch('error-request-raises', '%s raised %r' % (what, r.exc), rc)
            return
        want = case['code'] if case.get('code') is not None else STATUS.get(case['cls'], 500)
        if r.status != want:
            ctx.mismatch('status-code', '%s: status %s, expected %s' % (what, r.status, want), rc)
            return
        fields = {'code': want, 'message': case.get('message'), 'detail': case.get('detail'), 'error_type': case.get('error_type')}
        if case['cls'] == 'MethodNotAllowed':
            fields['detail'] = None
        fmt = check_error_body(ctx, r, fields, accept, rc, what, html_fields=not case['cls'].startswith('Contextual'),
                               dynamic=[case.get('detail'), case.get('message'), case.get('error_type')])
        if fmt and needs_escaping(fmt, [case.get('detail'), case.get('message'), case.get('error_type')]):
            ctx.nt(rc, sample=len(ctx.samples) < 3)
        ctx.event('fmt-%s' % fmt)
    elif kind == 'notfound':
        path = '/nf/' + '/'.join(case['path'])
        if case.get('header'):
            hdrs['X-Thing'] = case['header'].replace('\n', ' ').replace('\r', ' ').replace('\x00', '').encode('utf8').decode('latin1')
            hdrs['Referer'] = hdrs['X-Thing']
        if case.get('cookie'):
            hdrs['Cookie'] = case['cookie']
        try:
            path.encode('utf8')
        except UnicodeEncodeError:
            return
        r = call(app, path, case['method'], query=case['query'], headers=hdrs)
        ctx.requests += 1
        what = '%s %r?%s (404)' % (case['method'], path, case['query'])
        if r.exc is not None or r.status != 404:
            ctx.mismatch('notfound-status', '%s: %s %r' % (what, r.status, r.exc), rc)
            return
        fmt = check_error_body(ctx, r, {'code': 404}, accept, rc, what, dynamic=case['path'] + [case['query'], case.get('header'), case.get('cookie')])
        if fmt and needs_escaping(fmt, case['path'] + [case['query']]):
            ctx.nt(rc, sample=len(ctx.samples) < 3)
        ctx.event('fmt-%s' % fmt)
    else:
        path = '/boom/' + (case['pathseg'] or 'x')
        try:
            path.encode('utf8')
        except UnicodeEncodeError:
            return
        r = call(app, path, headers=hdrs)
        ctx.requests += 1
        what = 'GET %r raising %s(%r) local %r' % (path, case['exc'], case['msg'], case['local'])
        if r.exc is not None:
            ctx.mismatch('uncaught-escaped', '%s: %r' % (what, r.exc), rc)
            return
        if r.status == 404 and ('/' in case['pathseg'] or not case['pathseg']):
            return
        if r.status != 500:
            ctx.mismatch('uncaught-status', '%s: status %s' % (what, r.status), rc)
            return
        fmt = check_error_body(ctx, r, {'code': 500}, accept, rc, what, dynamic=[case['msg'], case['local'], case['pathseg']])
        if fmt and needs_escaping(fmt, [case['msg'], case['local'], case['pathseg']]):
            ctx.nt(rc, sample=len(ctx.samples) < 3)
        ctx.event('fmt-%s' % fmt)


def run_matrix(ctx):
    """every exported class x raise/return x breaking / non-breaking x 5 exact Accept values, default fields: status table + format"""
    from clastic import errors
    for debug in (False, True, 'fallback'):
        for cn in errors.__all__:
            for how in ('raise', 'return', 'raise-nb', 'return-nb'):
                for accept in ('text/html', 'application/json', 'application/xml', 'text/plain', 'image/png'):
                    case = {'kind': 'http', 'cls': cn, 'how': how.split('-')[0], 'detail': '<zq9m1> & "x"', 'message': None, 'error_type': None,
                            'code': None, 'accept': accept, 'debug': debug, 'method': 'GET', 'preset': None, 'reuse': None, 'nb': how.endswith('-nb')}
                    ctx.case(case)
                    try:
                        body(case, ctx)
                    except Exception as e:
                        ctx.classify_exc(e, case, 'case')


LONG_TEXTS = ['a' * off + '&<zq9lt>' + 'b' * 300 for off in range(249, 262)] + \
    ['&' * 250 + '<zq9lu>' + 'c' * 300, 'x' * 600 + '<zq9lv>', "'" * 300 + '"><zq9lw>', 'a' * 300 + '<zq9o> ' + 'a' * 300 + '<zq9o>',
     'line\n' * 120 + '<zq9lx>', 'é' * 260 + '<zq9ly>']


def field_catalogue():
    """complete: every text of the catalogue (and long ones whose special characters sit around the 256th / 512th position) in every
    field of an error x the four formats x production / debug handler"""
    out = []
    for text in NASTY + LONG_TEXTS:
        for field in ('detail', 'message', 'error_type'):
            for accept in ('text/html', 'application/json', 'application/xml', 'text/plain'):
                for debug in (False, True):
                    case = {'kind': 'http', 'cls': 'BadRequest', 'how': 'raise', 'detail': None, 'message': None, 'error_type': None, 'code': None,
                            'accept': accept, 'debug': debug, 'method': 'GET', 'preset': None, 'preset_ct': None, 'stack': None, 'reuse': None, 'nb': False}
                    case[field] = text
                    out.append(case)
    return out


def shards(tier, seed):
    n = 300 if tier == 'quick' else 60000
    return [{'n': n, 'matrix': i == 0, 'slice': i} for i in range(16)]


def run_shard(spec, ctx):
    if spec.get('matrix'):
        run_matrix(ctx)
    for case in field_catalogue()[spec.get('slice', 0)::16]:
        ctx.case(case)
        try:
            body(case, ctx)
        except Exception as e:
            ctx.classify_exc(e, case, 'case')
    ctx.hyp(strategy(), body, spec['n'], kind='case')


def replay(case, kind, ctx):
    body(case, ctx)
