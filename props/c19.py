"""C19 - stats count every request once and keep bounded samples.
A: rule-based state machine over an application with StatsMiddleware, model = Counter[(pattern, key)].
B: rule-based state machine over the sample store (Reservoir)."""
import json, random
from collections import Counter
from vlib import urlmodel as U, dispatchmodel as M
from vlib.wsgi import call

INFO = {
    'level': 'exploration',
    'rule': ('A: histories (Hypothesis rule-based machine, <=40 steps) of requests over an application whose routes '
             'cover every outcome kind (200, endpoint 3xx, raised/returned 4xx/5xx, uncaught exception, non-breaking '
             'fall-through, unknown URL, wrong method) with StatsMiddleware and the stats application mounted, '
             'interleaved with stats reads and resets - and with the requests, reads and resets of a second, independent '
             'application (own StatsMiddleware) in the same process; after every read/reset the JSON report must equal a model '
             'Counter keyed by (pattern, status-or-exception-name). B: histories over the sample store with capacity '
             '1..64: add unique values, resize up/down, iterate, reseed; invariants after every step. Non-trivial = A: a '
             'non-200 outcome or requests after a reset; B: a resize after the store has overflowed. Distinct histories counted.'),
    'assumptions': ['routes have pairwise distinct patterns (the report is keyed by pattern, O9)',
                    'an exception of the werkzeug HTTPException family raised by a route is "an HTTPException" in the sense of the statement: counted under its code or under the status answered (500), not under its class name',
                    'the reset request\'s own hit must be counted exactly once: either in the totals that reset returns or in the following epoch'],
}

ROUTE_KINDS = ['answer', 'redirect', 'raise403', 'ret404', 'raise500', 'ret503', 'nb403', 'nbret404', 'boom', 'answer-post', 'created',
               'wz410', 'wzkey']
# exceptions of werkzeug's own HTTPException family (abort(), the BadRequestKeyError of request.args[...]): the framework answers 500;
# the count goes under the exception's code - or under the status answered - but it is an HTTPException, not an anonymous crash
WZ = {'wz410': '410', 'wzkey': '400'}


def make_app():
    from clastic import Application, Route, Response, errors, redirect
    from clastic.middleware.stats import StatsMiddleware, create_stats_app

    def mk(kind):
        def ep(request):
            if kind == 'wz410':
                from werkzeug.exceptions import Gone
                raise Gone()
            if kind == 'wzkey':
                return Response(request.args['zq_absent'])
            if kind in ('answer', 'answer-post'):
                return Response('ok-' + kind)
            if kind == 'created':
                return Response('made', status=201)
            if kind == 'redirect':
                return redirect('/r/answer')
            if kind == 'raise403':
                raise errors.Forbidden()
            if kind == 'ret404':
                return errors.NotFound()
            if kind == 'raise500':
                raise errors.InternalServerError()
            if kind == 'ret503':
                return errors.ServiceUnavailable()
            if kind == 'nb403':
                raise errors.Forbidden(is_breaking=False)
            if kind == 'nbret404':
                return errors.NotFound(is_breaking=False)
            raise ZeroDivisionError('boom')
        return ep
    routes = []
    table = []
    for kind in ROUTE_KINDS:
        methods = ['POST'] if kind == 'answer-post' else None
        routes.append(Route('/r/' + kind, mk(kind), methods=methods))
        table.append(('/r/' + kind, methods, kind))
    # non-breaking errors with nothing behind them ...
    for kind in ('nb403', 'nbret404'):
        routes.append(Route('/q/' + kind, mk(kind)))
        table.append(('/q/' + kind, None, kind))
    # ... and, under /r/, a later route with a *different* pattern (O9) that answers after the fall-through
    routes.append(Route('/r/<k>', mk('answer')))
    table.append(('/r/<k>', None, 'answer'))
    mw = StatsMiddleware()
    # the very same middleware object also listed on a Route and on an embedded application: one middleware, each request counted once
    routes.append(Route('/w/route', mk('answer'), middlewares=[mw]))
    table.append(('/w/route', None, 'answer'))
    inner = Application([Route('/x', mk('created')), Route('/y', mk('raise403'))], middlewares=[mw])
    routes.append(('/w/sub', inner))
    table.append(('/w/sub/x', None, 'created'))
    table.append(('/w/sub/y', None, 'raise403'))
    # an embedded application that brings a StatsMiddleware *of its own* and its own stats mount: the embedding application's
    # instance is the one kept in every stack (unique type, outermost instance), so it counts - and the inner mount, served
    # through this application, reports and resets those same counts
    inner2 = Application([Route('/x', mk('answer')), ('/_stats', create_stats_app())], middlewares=[StatsMiddleware()])
    routes.append(('/v/sub', inner2))
    table.append(('/v/sub/x', None, 'answer'))
    # one application embedded under two prefixes, and one Route object listed in two embedded applications: the same
    # unbound route bound twice, with different resulting patterns - the report keeps them apart (round 14)
    twice = Application([Route('/x', mk('answer')), Route('/y', mk('raise403'))])
    shared = Route('/s', mk('created'))
    routes += [('/m1', twice), ('/m2', twice), ('/n1', Application([shared])), ('/n2', Application([shared, Route('/t', mk('answer'))]))]
    table += [(m + '/x', None, 'answer') for m in ('/m1', '/m2')] + [(m + '/y', None, 'raise403') for m in ('/m1', '/m2')]
    table += [('/n1/s', None, 'created'), ('/n2/s', None, 'created'), ('/n2/t', None, 'answer')]
    app = Application(routes + [('/_stats', create_stats_app())], middlewares=[mw])
    return app, table


OUTCOME_KEY = {'answer': '200', 'answer-post': '200', 'created': '201', 'redirect': '302', 'raise403': '403', 'ret404': '404',
               'raise500': '500', 'ret503': '503', 'nb403': '403', 'nbret404': '404', 'boom': 'ZeroDivisionError',
               'wz410': '410', 'wzkey': '400'}
NULL = '/<_ignored*>'


def executed(table, path, method):
    """model: which (pattern, key) pairs one request adds"""
    out = []
    last_nb = None
    allowed = False
    for pattern, methods, kind in table:
        if not U.match(U.parse(pattern), 'redirect', path):
            continue
        if methods and method.upper() not in M.method_set(methods):
            allowed = True
            continue
        out.append((pattern, OUTCOME_KEY[kind]))
        if kind in ('nb403', 'nbret404'):
            last_nb = OUTCOME_KEY[kind]
            continue
        return out
    out.append((NULL, last_nb or ('405' if allowed else '404')))
    return out


def strip(k):
    return k.strip('\'"')


class StatsSim(object):
    def __init__(self, ctx):
        self.ctx = ctx
        self.app, self.table = make_app()
        self.model = Counter()
        self.after_reset = False
        self.nontrivial = False
        self.other = None

    def step(self, op):
        ctx = self.ctx
        kind = op[0]
        if kind == 'other':
            # a second, independent application with a StatsMiddleware of its own, living in the same process: its requests,
            # reads and resets are its own business (each application is compared with its own model)
            if self.other is None:
                self.other = StatsSim(ctx)
            self.other.step(op[1])
            self.nontrivial = True
            return
        if kind == 'construct':
            make_app()          # yet another application is built (and dropped) while this one is in use
            return
        if kind == 'req':
            _, path, method = op
            r = call(self.app, path, method)
            ctx.requests += 1
            if r.exc is not None:
                ctx.mismatch('request-raises', '%s %s raised %r' % (method, path, r.exc))
                return
            for pk in executed(self.table, path, method):
                self.model[pk] += 1
                if pk[1] != '200':
                    self.nontrivial = True
            if self.after_reset:
                self.nontrivial = True
            exp = executed(self.table, path, method)[-1][1]
            want = 500 if exp == 'ZeroDivisionError' or path in ('/r/wz410', '/r/wzkey') and exp in ('410', '400') else int(exp)
            if r.status != want:
                ctx.mismatch('status-with-stats', '%s %s -> %s, expected %s' % (method, path, r.status, want))
        elif kind == 'read':
            mount = '/v/sub/_stats' if len(op) > 1 and op[1] == 'inner' else '/_stats'
            r = call(self.app, mount + '/', 'GET', query='format=json')
            ctx.requests += 1
            self.compare(r, 'read')
            self.model[(mount + '/', '200')] += 1
            if mount != '/_stats':
                ctx.event('A-read-through-inner-mount')
        elif kind == 'reset':
            mount = '/v/sub/_stats' if len(op) > 1 and op[1] == 'inner' else '/_stats'
            r = call(self.app, mount + '/reset', 'POST', query='format=json')
            ctx.requests += 1
            in_old = self.compare(r, 'reset', mount + '/reset')
            self.model = Counter()
            if not in_old:
                self.model[(mount + '/reset', '200')] += 1      # then it must show up in the next report
            self.after_reset = True

    def compare(self, r, what, reset_pattern='/_stats/reset'):
        ctx = self.ctx
        if r.exc is not None or r.status != 200:
            ctx.mismatch('stats-report-unavailable', '%s: stats report gave %s %r %r' % (what, r.status, r.exc, r.body[:200]))
            return
        try:
            rep = json.loads(r.body.decode('utf8'))['route_stats']
        except Exception as e:
            ctx.mismatch('stats-report-unparsable', '%s: %r %r' % (what, e, r.body[:200]))
            return
        got = Counter()
        for pattern, by_status in rep.items():
            for k, d in by_status.items():
                key = strip(k)
                if pattern[3:] in WZ and key == '500':
                    key = WZ[pattern[3:]]                    # counted under the status answered: equally fine
                got[(pattern, key)] += d['count']
        want = Counter(dict((k, v) for k, v in self.model.items() if v))
        in_old = False
        if got != want:
            # a reset request's own hit may already be part of the totals it returns (then it is not owed to the next epoch)
            key = (reset_pattern, '200')
            g2, w2 = Counter(got), Counter(want)
            if what == 'reset' and g2.get(key, 0) == w2.get(key, 0) + 1:
                in_old = True
                w2[key] += 1
            if g2 != w2:
                diff = dict((k, (got.get(k, 0), want.get(k, 0))) for k in set(got) | set(want) if got.get(k, 0) != want.get(k, 0))
                ctx.mismatch('count-mismatch', '%s: (pattern, key): (reported, model) %r' % (what, diff))
        return in_old


def stats_machine():
    from hypothesis import strategies as st
    from hypothesis.stateful import RuleBasedStateMachine, rule

    paths = ['/r/' + k for k in ROUTE_KINDS] + ['/q/nb403', '/q/nbret404', '/nowhere', '/r/answer/x', '/', '/r/other',
                                                '/w/route', '/w/sub/x', '/w/sub/y', '/v/sub/x']

    class StatsMachine(RuleBasedStateMachine):
        ctx = None

        def __init__(self):
            RuleBasedStateMachine.__init__(self)
            self.steps = []
            type(self).last_history = self.steps
            self.ctx.case(self.steps)
            self.sim = StatsSim(self.ctx)

        def do(self, op):
            self.steps.append(op)
            self.ctx.current = self.steps
            self.sim.step(op)

        @rule(path=st.sampled_from(paths), method=st.sampled_from(['GET', 'GET', 'GET', 'POST', 'HEAD', 'DELETE']))
        def request(self, path, method):
            self.do(['req', path, method])

        @rule(path=st.sampled_from(paths), method=st.sampled_from(['GET', 'GET', 'POST']))
        def other_request(self, path, method):
            self.do(['other', ['req', path, method]])

        @rule(what=st.sampled_from(['read', 'reset', 'reset']))
        def other_read_or_reset(self, what):
            self.do(['other', [what]])

        @rule()
        def construct_another(self):
            self.do(['construct'])

        @rule(mount=st.sampled_from(['outer', 'outer', 'inner']))
        def read(self, mount):
            self.do(['read', mount])

        @rule(mount=st.sampled_from(['outer', 'outer', 'inner']))
        def reset(self, mount):
            self.do(['reset', mount])

        def teardown(self):
            self.sim.step(['read'])
            if self.sim.other is not None:
                self.sim.other.step(['read'])
            if self.sim.nontrivial:
                self.ctx.nt(['stats', list(self.steps)], sample=len(self.ctx.samples) < 2)
            for op in self.steps:
                self.ctx.event('A-' + op[0])
    return StatsMachine


class ResSim(object):
    def __init__(self, ctx, cap):
        from clastic.middleware.stats import Reservoir
        self.ctx = ctx
        self.cap = cap
        self.r = Reservoir(cap)
        self.added = []
        self.overflowed = False
        self.nontrivial = False

    def guard(self, what, f):
        try:
            return f()
        except Exception as e:
            self.ctx.mismatch('reservoir-raises', '%s raised %r (cap %d, %d values added)' % (what, e, self.cap, len(self.added)))

    def step(self, op):
        kind = op[0]
        if kind == 'add':
            for _ in range(op[1]):
                v = 'v%d' % len(self.added)
                self.added.append(v)
                self.guard('add', lambda: self.r.add(v))
            if len(self.added) > self.cap:
                self.overflowed = True
        elif kind == 'resize':
            if self.overflowed:
                self.nontrivial = True
            if op[1] < len(self.added):
                self.overflowed = True       # shrinking below what was added drops values legitimately
            self.cap = op[1]
            self.guard('resize(%d)' % op[1], lambda: self.r.resize(op[1]))
        elif kind == 'seed':
            random.seed(op[1])
        self.invariants()

    def invariants(self):
        ctx = self.ctx
        data = self.guard('iteration', lambda: list(self.r))
        if data is None:
            return
        if len(data) > self.cap:
            ctx.mismatch('reservoir-over-capacity', 'holds %d values with capacity %d' % (len(data), self.cap))
        if self.r.total_count != len(self.added):
            ctx.mismatch('reservoir-total-count', 'total_count %r after %d adds' % (self.r.total_count, len(self.added)))
        if not set(data) <= set(self.added):
            ctx.mismatch('reservoir-foreign-value', 'contains values never added: %r' % sorted(set(data) - set(self.added))[:3])
        if len(set(data)) != len(data):
            ctx.mismatch('reservoir-duplicate', 'a unique value appears twice')
        if len(self.added) <= self.cap and not self.overflowed and len(data) != len(self.added):
            ctx.mismatch('reservoir-lost-value', 'capacity never exceeded but %d of %d values kept' % (len(data), len(self.added)))


def reservoir_machine():
    from hypothesis import strategies as st
    from hypothesis.stateful import RuleBasedStateMachine, rule, initialize

    class ReservoirMachine(RuleBasedStateMachine):
        ctx = None

        def __init__(self):
            RuleBasedStateMachine.__init__(self)
            self.steps = []
            type(self).last_history = self.steps
            self.ctx.case(self.steps)
            self.sim = None

        @initialize(cap=st.integers(1, 64))
        def init(self, cap):
            self.steps.append(['cap', cap])
            self.sim = ResSim(self.ctx, cap)

        def do(self, op):
            self.steps.append(op)
            self.ctx.current = self.steps
            self.sim.step(op)

        @rule(n=st.one_of(st.integers(1, 5), st.integers(1, 200), st.integers(1, 3500)))
        def add(self, n):
            self.do(['add', n])

        @rule(n=st.integers(1, 64))
        def resize(self, n):
            self.do(['resize', n])

        @rule(s=st.integers(0, 2 ** 32))
        def reseed(self, s):
            self.do(['seed', s])

        def teardown(self):
            if self.sim is not None and self.sim.nontrivial:
                self.ctx.nt(['reservoir', list(self.steps)], sample=len(self.ctx.samples) < 2)
            for op in self.steps:
                self.ctx.event('B-' + op[0])
    return ReservoirMachine


def run_burst(spec, ctx):
    """far more requests to one route than its sample store holds: the *count* must still be exact (part A only sends
    a few dozen requests per history; the store's default capacity is 2**14)"""
    import random
    rng = random.Random(ctx.hseed(5))
    for rep in range(spec['reps']):
        sim = StatsSim(ctx)
        plan = [('/r/answer', 'GET', 16384 + rng.randint(1, 900)), ('/nowhere', 'GET', 16384 + rng.randint(1, 400)),
                ('/r/raise403', 'GET', rng.randint(1, 50))]
        rng.shuffle(plan)
        case = ['burst', [list(p) for p in plan]]
        ctx.case(case)
        try:
            for path, method, n in plan:
                for _ in range(n):
                    r = call(sim.app, path, method)
                    for pk in executed(sim.table, path, method):
                        sim.model[pk] += 1
                ctx.requests += n
            sim.step(['read'])
            sim.step(['reset'])
            sim.step(['req', '/r/answer', 'GET'])
            sim.step(['read'])
            ctx.nt(case, sample=len(ctx.samples) < 1)
            ctx.event('A-burst')
        except Exception as e:
            ctx.classify_exc(e, case, 'burst')


MOUNT_PATHS = ['/m1/x', '/m2/x', '/m1/y', '/m2/y', '/n1/s', '/n2/s', '/n2/t']


def run_mounts(spec, ctx):
    """complete family: the doubly-bound routes requested in every order of first contact (which binding is seen first in
    an epoch must not matter), different multiplicities, a read, a reset, the opposite order, a read (through either mount)"""
    import itertools
    cases = []
    for a, b in itertools.permutations(MOUNT_PATHS, 2):
        for na, nb in ((1, 1), (2, 3)):
            for mount in ('outer', 'inner'):
                steps = [['req', a, 'GET']] * na + [['req', b, 'GET']] * nb + [['req', a, 'HEAD']] + [['read', mount], ['reset', mount]]
                steps += [['req', b, 'GET']] * na + [['req', a, 'GET']] * nb + [['read', mount]]
                steps += [['req', p, 'GET'] for p in MOUNT_PATHS] + [['reset', 'outer']] + [['req', p, 'GET'] for p in reversed(MOUNT_PATHS)]
                cases.append(['stats', [list(x) for x in steps]])

    def body(case, ctx):
        ctx.current = case
        sim = StatsSim(ctx)
        for op in case[1]:
            sim.step(op)
        sim.step(['read'])
        ctx.event('A-double-mount')
        ctx.nt(case, sample=False)
    ctx.loop(cases, body, kind='stats', max_sigs=6)


def shards(tier, seed):
    q = tier == 'quick'
    out = [{'part': 'A', 'n': 25 if q else 600, 'steps': 40} for _ in range(8)]
    out += [{'part': 'B', 'n': 60 if q else 6000, 'steps': 30 if q else 50} for _ in range(7)]
    out.append({'part': 'burst', 'reps': 1 if q else 12})
    out.append({'part': 'mounts'})
    return out


def run_shard(spec, ctx):
    if spec['part'] == 'burst':
        run_burst(spec, ctx)
    elif spec['part'] == 'mounts':
        run_mounts(spec, ctx)
    elif spec['part'] == 'A':
        ctx.machine(stats_machine(), spec['n'], spec['steps'], kind='stats')
    else:
        ctx.machine(reservoir_machine(), spec['n'], spec['steps'], kind='reservoir')


def replay(case, kind, ctx):
    if kind == 'burst' or (case and case[0] == 'burst'):
        sim = StatsSim(ctx)
        for path, method, n in case[1]:
            for _ in range(n):
                call(sim.app, path, method)
                for pk in executed(sim.table, path, method):
                    sim.model[pk] += 1
        sim.step(['read'])
        return
    steps = case
    if steps and steps[0] == 'stats':
        steps = steps[1]
    if kind == 'reservoir' or (steps and steps[0][0] == 'cap'):
        sim = ResSim(ctx, steps[0][1])
        for op in steps[1:]:
            sim.step(op)
    else:
        sim = StatsSim(ctx)
        for op in steps:
            sim.step(op)
        sim.step(['read'])
