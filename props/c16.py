"""C16 - signed cookies: only intact, unexpired, server-signed data is ever presented.
Rule-based state machine with a harness-owned clock and a ledger of every cookie the server issued."""
import json, types
from vlib.wsgi import call_environ, make_environ

INFO = {
    'level': 'exploration',
    'rule': ('histories (Hypothesis rule-based machine, <=30 steps) over a server with SignedCookieMiddleware(secret, '
             'expiry in {session, never, numeric}, default or custom cookie/argument names), 2 clients holding raw '
             'Set-Cookie values, a fake clock and a ledger of every cookie string issued: requests that set / delete / clear '
             'keys with JSON-compatible values or only read, clock advances around the expiry, replay of any issued '
             'cookie, and tampering (flip a character, truncate, extend, swap payload/signature between ledger entries, '
             're-sign with another key, random text, non-ASCII, malformed base64, missing separators). Non-trivial = the '
             'history contains a tamper, a replay or an expiry crossing followed by a read; distinct histories counted. '
             'A direct campaign over generated Cookie header values with the same oracle is included.'),
    'assumptions': ['base64 decoding is lenient (O7): a cookie whose payload equals a ledger entry but whose signature text differs may present {} or that entry\'s data',
                    'within +-1 s of the expiry either outcome is accepted (the stored expiry is truncated to whole seconds)',
                    'tampered values contain no backslash, semicolon, comma or blank (those would change how the Cookie header is split, not the cookie)'],
}

B64 = 'ABCDEFGHIJKLMNOPQRSTUVWXYZabcdefghijklmnopqrstuvwxyz0123456789+/'
VALUES = [1, 0, -3, 2.5, 1e100, True, False, None, '', 'v', 'é☃', 'k=&?%;" ', [], {}, [1, [2, [3]]], {'x': [1, 2.5, 'é', None, True]},
          {'': ''}, 'x' * 120, '"', "'", '\\', '\n', '<b>', 123456789012345678901234567890]
KEYS = ['a', 'b', 'user', '', 'k=&?', 'é', ' ', 'A', 'a b', '%41', 'x.y', '+']
SECRET = 'server-secret-zq9'


class Clock(object):
    def __init__(self):
        self.now = 1000000.0


def install_clock(clock):
    """patch the names the cookie code looks the time up under (no repository hook).  If a refactor moved them the
    clock is not under control: expiry outcomes are then not asserted (noted in evidence), nothing else changes."""
    import clastic.middleware.cookie as cmod
    import secure_cookie.cookie as scmod
    saved = {}
    ok = True
    if hasattr(cmod, 'time') and hasattr(cmod.time, 'time'):
        saved['c'] = cmod.time
        cmod.time = types.SimpleNamespace(time=lambda: clock.now)
    elif callable(getattr(cmod, 'time', None)):
        saved['c'] = cmod.time
        cmod.time = lambda: clock.now
    else:
        ok = False
    if callable(getattr(scmod, 'time', None)):
        saved['s'] = scmod.time
        scmod.time = lambda: clock.now
    elif hasattr(scmod, 'time') and hasattr(scmod.time, 'time'):
        saved['s'] = scmod.time
        scmod.time = types.SimpleNamespace(time=lambda: clock.now)
    else:
        ok = False
    saved['ok'] = ok
    return saved


def restore_clock(saved):
    import clastic.middleware.cookie as cmod
    import secure_cookie.cookie as scmod
    if 'c' in saved:
        cmod.time = saved['c']
    if 's' in saved:
        scmod.time = saved['s']


SECRET_TEXT = u'gro\xdfes-gehe\xedmnis-\u0416-zq9'      # a text secret with characters outside ASCII / outside Latin-1
SECRET_BYTES = b'\xffserver\x00secret\xfezq9'


def server_key(cfg):
    return {'text-nonascii': SECRET_TEXT, 'bytes': SECRET_BYTES}.get(cfg.get('key'), SECRET)


def similar_keys(key):
    """keys another party might hold that differ from the server's, but only slightly: none of them may open its cookies"""
    import unicodedata
    if isinstance(key, bytes):
        return [key.replace(b'\xff', b'?').replace(b'\xfe', b'?'), key.replace(b'\x00', b''), key.swapcase(), key[:-1], key.decode('latin-1')]
    out = [''.join(c if ord(c) < 128 else '?' for c in key), ''.join(c if ord(c) < 128 else u'\xe9' for c in key),
           key.encode('latin-1', 'replace'), key.encode('ascii', 'ignore'), unicodedata.normalize('NFD', key.replace(u'\xed', u'\xef')),
           key.upper(), key.swapcase(), key[:-1], key + ' ', key.encode('utf-16-le')]
    return [k for k in out if k != key and (k if isinstance(k, bytes) else k.encode('utf-8')) != (key if isinstance(key, bytes) else key.encode('utf-8'))]


def make_app(cfg):
    from clastic import Application, Response
    from clastic.middleware.cookie import SignedCookieMiddleware, NEVER
    expiry = {'session': 0, 'never': NEVER}.get(cfg['expiry'], cfg['expiry'])
    kw = {'secret_key': server_key(cfg), 'expiry': expiry}
    if cfg.get('key') == 'default':
        del kw['secret_key']                # the middleware draws its own signing key
    if cfg.get('arg_name'):
        kw['arg_name'] = cfg['arg_name']
    if cfg.get('cookie_name'):
        kw['cookie_name'] = cfg['cookie_name']
    arg = cfg.get('arg_name') or 'cookie'
    main_name = cfg.get('cookie_name') or 'clastic_%s' % arg
    ns = {'json': json, 'Response': Response}
    second = cfg.get('second')
    aux_param = ', aux' if second else ''
    exec('def ep(%s%s, request):\n'
         '    c = %s\n'
         '    ops = json.loads(request.args.get("ops", "[]"))\n'
         '    before = dict(c)\n'
         '    for op in ops:\n'
         '        if op[0] == "set": c[op[1]] = op[2]\n'
         '        elif op[0] == "del": c.pop(op[1], None)\n'
         '        elif op[0] == "clear": c.clear()\n'
         '        elif op[0] == "expire": c.set_expires() if op[1] == "now" else c.set_expires(op[1])\n'
         '    if request.args.get("aux") and %s:\n'
         '        aux["n"] = aux.get("n", 0) + 1\n'
         '    return Response(json.dumps(before), mimetype="application/json")\n' % (arg, aux_param, arg, 'True' if second else 'False'), ns)
    mws = [SignedCookieMiddleware(**kw)]
    aux_name = None
    if second:
        # a second signed-cookie middleware on the same application: its cookie name is a proper prefix of the main one's,
        # an extension of it, or unrelated; listed before (outer) or after (inner) the main one
        aux_name = {'prefix': main_name[:max(1, len(main_name) // 2)], 'extension': main_name + '2', 'other': 'zq_aux'}[second['name']]
        aux_mw = SignedCookieMiddleware(arg_name='aux', cookie_name=aux_name, secret_key=SECRET + '-aux', expiry=expiry)
        mws = [aux_mw] + mws if second['outer'] else mws + [aux_mw]
    app = Application([('/', ns['ep'])], middlewares=mws)
    return app, main_name, aux_name


def apply_ops(data, ops):
    d = dict(data)
    for op in ops:
        if op[0] == 'expire':
            continue
        if op[0] == 'set':
            d[op[1]] = op[2]
        elif op[0] == 'del':
            d.pop(op[1], None)
        elif op[0] == 'clear':
            d.clear()
    return d


def clean(s):
    return ''.join(c for c in s if c not in '\\;, \t\r\n"\x00' and ord(c) < 256 and (ord(c) > 32)) or 'x'


def tamper(kind, base, other, p, q):
    """deterministic tampering of the raw cookie value `base` (quotes stripped)"""
    b = base.strip('"')
    if kind == 'flip' and b:
        i = p % len(b)
        ch = B64[(B64.find(b[i]) + 1 + q % 60) % 64] if b[i] in B64 else 'A'
        if ch == b[i]:
            ch = 'B' if ch != 'B' else 'C'
        return b[:i] + ch + b[i + 1:]
    if kind == 'highbit' and b:
        i = p % len(b)
        if q % 3 == 0 and '?' in b:      # aim at the key region right after a separator
            seps = [j for j, c in enumerate(b) if c in '?&' and j + 1 < len(b)]
            i = seps[p % len(seps)] + 1 if seps else i
        return clean(b[:i] + chr((ord(b[i]) | 0x80) & 0xff) + b[i + 1:])
    if kind == 'truncate' and b:
        return b[:max(0, len(b) - 1 - p % min(len(b), 12))] or 'x'
    if kind == 'truncate-head' and b:
        return b[1 + p % min(len(b), 12):] or 'x'
    if kind == 'extend':
        return b + ['A', '=', '&x=eA==', '?', 'AAAA', '&'][p % 6]
    if kind == 'swap' and other:
        o = other.strip('"')
        if '?' in b and '?' in o:
            return (o.split('?', 1)[0] + '?' + b.split('?', 1)[1]) if p % 2 else (b.split('?', 1)[0] + '?' + o.split('?', 1)[1])
        return o[::-1]
    if kind == 'resign':
        return None   # handled by caller (needs the data)
    if kind == 'random':
        return clean(''.join(chr(33 + (p * 7 + i * (q + 3)) % 90) for i in range(1 + p % 40)))
    if kind == 'nonascii':
        return clean('é' + b[:5] + 'ÿ?a=b' + chr(160 + p % 90))
    if kind == 'badb64':
        return ['a?b', '!!!?x=y', '=?=', '?', 'a?b=c', '*?a=*', 'AAA?a=eA==', '====?', 'a' * (1 + p % 7) + '?' + (b.split('?', 1)[1] if '?' in b else 'k=v'),
                'abc?\xe9=1', 'abc?k\xff=eA==&a=b', '\xe9?\xe9=\xe9', 'abc?%ff=1', 'abc?a=1&=2&&'][p % 14]
    if kind == 'nosep':
        return [b.replace('?', ''), b.replace('=', ''), b.replace('&', ''), b.replace('?', '&')][p % 4] or 'x'
    if kind == 'quote-toggle':
        return base[1:-1] if base.startswith('"') and base.endswith('"') and len(base) > 1 else '"' + base + '"'
    if kind == 'case':
        return b.swapcase()
    return b or 'x'


class CookieSim(object):
    def __init__(self, ctx, cfg):
        self.ctx = ctx
        self.cfg = cfg
        self.clock = Clock()
        self.saved = install_clock(self.clock)
        self.app, self.cookie_name, self.aux_name = make_app(cfg)
        self.aux_cookie = None
        self.ledger = []           # dict(cookie, payload, data, expires_at)
        self.client = [None, None]
        self.interesting = False
        self.pending = False       # a tamper/replay/expiry crossing happened, waiting for a read

    def close(self):
        restore_clock(self.saved)

    def numeric(self):
        return isinstance(self.cfg['expiry'], (int, float)) and self.cfg['expiry'] not in ('session', 'never')

    def allowed(self, sent):
        """-> list of data dicts that may be presented for this raw cookie value (None sent -> [{}])"""
        if sent is None:
            return [{}], 'none'
        raw = sent
        now = self.clock.now

        def live(e):
            if e['expires_at'] is None:
                return [e['data']]
            if not self.saved.get('ok'):
                self.ctx.note('the cookie clock could not be put under harness control: expiry outcomes not asserted')
                return [e['data'], {}]
            if now < e['expires_at'] - 1:
                return [e['data']]
            if now > e['expires_at'] + 1:
                return [{}]
            return [e['data'], {}]
        for e in self.ledger:
            if raw == e['cookie'] or raw.strip('"') == e['cookie'].strip('"'):
                return live(e), 'ledger'
        stripped = raw.strip('"')
        if '?' in stripped:
            payload = stripped.split('?', 1)[1]
            for e in self.ledger:
                if e['payload'] == payload:
                    return live(e) + [{}], 'same-payload'
        return [{}], 'foreign'

    def request(self, client, ops, sent, label):
        ctx = self.ctx
        q = 'ops=' + __import__('urllib.parse').parse.quote(json.dumps(ops))
        touch_aux = bool(self.aux_name and ops)
        if touch_aux:
            q += '&aux=1'
        hdrs = {}
        parts = []
        if sent is not None:
            parts.append('%s=%s' % (self.cookie_name, sent))
        if self.aux_cookie is not None:
            parts.append('%s=%s' % (self.aux_name, self.aux_cookie))
        if parts:
            hdrs['Cookie'] = '; '.join(parts)
        env = make_environ('/', 'GET', q, headers=hdrs)
        r = call_environ(self.app, env)
        ctx.requests += 1
        what = '%s cookie %r (t=%s)' % (label, sent if sent is None or len(sent) < 90 else sent[:90] + '...', self.clock.now)
        if r.exc is not None:
            ctx.mismatch('cookie-request-raises', '%s: %r' % (what, r.exc))
            return
        if r.status != 200:
            ctx.mismatch('cookie-error-response', '%s: status %s %r' % (what, r.status, r.body[:120]))
            return
        try:
            presented = json.loads(r.body.decode('utf8'))
        except ValueError:
            ctx.mismatch('cookie-echo-unparsable', '%s: %r' % (what, r.body[:80]))
            return
        allowed, cls = self.allowed(sent)
        ctx.event('sent-' + cls)
        if not any(same_json(presented, a) for a in allowed):
            ctx.mismatch('presented-' + cls, '%s: endpoint was given %r, allowed %r' % (what, presented, allowed[:2]))
            return
        if self.pending:
            self.interesting = True
            self.pending = False
        new = apply_ops(presented, ops)
        if self.aux_name:
            asc = [v for k, v in r.headers if k.lower() == 'set-cookie' and v.startswith(self.aux_name + '=')]
            if asc:
                self.aux_cookie = asc[-1].split(';', 1)[0].split('=', 1)[1]
            elif touch_aux:
                ctx.mismatch('no-set-cookie-second', '%s: the second cookie middleware\'s data changed but its Set-Cookie is missing' % what)
                return
        sc = [v for k, v in r.headers if k.lower() == 'set-cookie' and v.startswith(self.cookie_name + '=')]
        modified = not same_json(new, presented) or any(op[0] in ('set', 'expire') for op in ops)
        if sc:
            val = sc[-1].split(';', 1)[0].split('=', 1)[1]
            exp = (self.clock.now + self.cfg['expiry']) if self.numeric() else None
            # an expiry the application set itself through the cookie object overrides the middleware's
            explicit = []
            for op in ops:
                if op[0] == 'expire':
                    explicit.append(op[1])
                elif op[0] == 'clear':
                    explicit = []           # the expiry is kept inside the cookie: clear() drops it with everything else
            if explicit:
                exp = 123456 if explicit[-1] == 'now' else explicit[-1]
                self.pending = True
            self.ledger.append({'cookie': val, 'payload': val.strip('"').split('?', 1)[1] if '?' in val else '',
                                'data': new, 'expires_at': exp})
            self.client[client] = val
        elif modified:
            ctx.mismatch('no-set-cookie', '%s: data changed %r -> %r but no Set-Cookie was sent' % (what, presented, new))

    def step(self, op):
        kind = op[0]
        if kind == 'req':
            _, client, ops = op
            self.request(client, ops, self.client[client], 'own')
        elif kind == 'tick':
            self.clock.now += op[1]
            if self.numeric() and op[1] >= 1:
                self.pending = True
        elif kind == 'replay':
            _, client, idx, ops = op
            if self.ledger:
                e = self.ledger[idx % len(self.ledger)]
                self.pending = True
                self.request(client, ops, e['cookie'], 'replay')
        elif kind == 'tamper':
            _, client, tkind, src, other, p, q, ops = op
            base = self.ledger[src % len(self.ledger)]['cookie'] if self.ledger else (self.client[client] or 'x?y=z')
            oth = self.ledger[other % len(self.ledger)]['cookie'] if self.ledger else None
            if tkind == 'resign':
                from clastic.middleware.cookie import JSONCookie
                data = self.ledger[src % len(self.ledger)]['data'] if self.ledger else {'a': 1}
                c = JSONCookie(dict(data, forged=True) if p % 2 else dict(data), 'other-key-%d' % q)
                sent = c.serialize().decode('ascii')
            elif tkind == 'foreign':
                # a cookie issued by *another* server's middleware that was also built without an explicit key (or with another
                # explicit one): same data, same cookie name, a signature this server never made
                from clastic.middleware.cookie import JSONCookie, SignedCookieMiddleware
                data = self.ledger[src % len(self.ledger)]['data'] if self.ledger else {'a': 1}
                if p % 4 == 3 and self.cfg.get('key') != 'default':
                    sims = similar_keys(server_key(self.cfg))
                    other_mw = SignedCookieMiddleware(secret_key=sims[q % len(sims)])
                    self.ctx.event('tamper-foreign-similar-key')
                else:
                    other_mw = SignedCookieMiddleware() if p % 3 else SignedCookieMiddleware(secret_key='another-explicit-key')
                sent = JSONCookie(dict(data), other_mw.secret_key).serialize().decode('ascii')
            else:
                sent = tamper(tkind, base, oth, p, q)
            self.pending = True
            self.ctx.event('tamper-' + tkind)
            self.request(client, ops, sent, 'tamper:' + tkind)
        elif kind == 'drop':
            self.client[op[1]] = None


def same_json(a, b):
    try:
        return json.dumps(a, sort_keys=True) == json.dumps(b, sort_keys=True)
    except TypeError:
        return a == b


TAMPERS = ['flip', 'highbit', 'truncate', 'truncate-head', 'extend', 'swap', 'resign', 'foreign', 'random', 'nonascii', 'badb64', 'nosep', 'quote-toggle', 'case']


def machine():
    from hypothesis import strategies as st
    from hypothesis.stateful import RuleBasedStateMachine, rule, initialize
    op = st.one_of(st.tuples(st.just('set'), st.sampled_from(KEYS), st.sampled_from(VALUES)).map(list),
                   st.tuples(st.just('set'), st.text(max_size=4).filter(lambda k: k != '_expires'),
                             st.recursive(st.one_of(st.integers(-9, 9), st.text(max_size=5), st.booleans(), st.none(), st.floats(-1e6, 1e6)),
                                          lambda ch: st.one_of(st.lists(ch, max_size=3), st.dictionaries(st.text(max_size=3), ch, max_size=3)),
                                          max_leaves=6)).map(list),
                   st.tuples(st.just('del'), st.sampled_from(KEYS)).map(list), st.just(['clear']),
                   st.sampled_from([['expire', 'now'], ['expire', 1000000 + 50], ['expire', 1000000 + 5000], ['expire', 10 ** 10]]))
    ops = st.lists(op, max_size=3)
    cfgs = st.fixed_dictionaries({'expiry': st.sampled_from(['session', 'never', 5, 100, 100, 3600]),
                                  'key': st.sampled_from(['explicit', 'default', 'text-nonascii', 'bytes']),
                                  'arg_name': st.sampled_from([None, None, 'session', 'sess_data']),
                                  'cookie_name': st.sampled_from([None, None, 'sid', 'my.cookie']),
                                  'second': st.one_of(st.none(), st.none(), st.fixed_dictionaries({
                                      'name': st.sampled_from(['prefix', 'extension', 'other']), 'outer': st.booleans()}))})

    class CookieMachine(RuleBasedStateMachine):
        ctx = None

        def __init__(self):
            RuleBasedStateMachine.__init__(self)
            self.steps = []
            type(self).last_history = self.steps
            self.ctx.case(self.steps)
            self.sim = None

        @initialize(cfg=cfgs)
        def init(self, cfg):
            self.steps.append(['cfg', cfg])
            self.sim = CookieSim(self.ctx, cfg)

        def do(self, op):
            self.steps.append(op)
            self.ctx.current = self.steps
            self.sim.step(op)

        @rule(client=st.integers(0, 1), ops=ops)
        def request(self, client, ops):
            self.do(['req', client, ops])

        @rule(client=st.integers(0, 1))
        def read(self, client):
            self.do(['req', client, []])

        @rule(dt=st.sampled_from([0.25, 1, 2, 4, 5, 6, 50, 99, 100, 101, 3599, 3601, 10 ** 6]))
        def tick(self, dt):
            self.do(['tick', dt])

        @rule(client=st.integers(0, 1), idx=st.integers(0, 30), ops=ops)
        def replay(self, client, idx, ops):
            self.do(['replay', client, idx, ops])

        @rule(client=st.integers(0, 1), tkind=st.sampled_from(TAMPERS), src=st.integers(0, 30), other=st.integers(0, 30),
              p=st.integers(0, 200), q=st.integers(0, 60), ops=ops)
        def tamper(self, client, tkind, src, other, p, q, ops):
            self.do(['tamper', client, tkind, src, other, p, q, ops])

        @rule(client=st.integers(0, 1))
        def drop(self, client):
            self.do(['drop', client])

        def teardown(self):
            if self.sim is not None:
                if self.sim.interesting:
                    self.ctx.nt(list(self.steps), sample=len(self.ctx.samples) < 2)
                self.sim.close()
    return CookieMachine


def header_strategy():
    """direct campaign over Cookie header values (same oracle): structured mutations of a valid cookie + free text"""
    from hypothesis import strategies as st
    free = st.text(alphabet=''.join(chr(c) for c in range(33, 256) if chr(c) not in '\\;,"'), max_size=60)
    b64ish = st.text(alphabet=B64 + '=?&', max_size=60)
    return st.tuples(st.sampled_from(['session', 100]), st.lists(st.tuples(st.sampled_from(KEYS), st.sampled_from(VALUES)), max_size=3),
                     st.one_of(st.tuples(st.just('tamper'), st.sampled_from(TAMPERS), st.integers(0, 200), st.integers(0, 60)),
                               st.tuples(st.just('free'), free), st.tuples(st.just('free'), b64ish),
                               st.tuples(st.just('splice'), st.integers(0, 80), b64ish)))


def header_body(case, ctx):
    expiry, sets, mut = case
    rc = [expiry, [list(s) for s in sets], list(mut)]
    ctx.current = rc
    sim = CookieSim(ctx, {'expiry': expiry})
    try:
        sim.step(['req', 0, [['set', k, v] for k, v in sets]])
        sim.step(['req', 1, [['set', 'other', 1]]])
        base = sim.client[0] or 'x?y=z'
        if mut[0] == 'tamper':
            if mut[1] in ('resign', 'foreign'):
                sim.step(['tamper', 0, mut[1], 0, 1, mut[2], mut[3], []])
                return
            sent = tamper(mut[1], base, sim.client[1], mut[2], mut[3])
        elif mut[0] == 'free':
            sent = clean(mut[1])
        else:
            b = base.strip('"')
            i = mut[1] % (len(b) + 1)
            sent = clean(b[:i] + mut[2] + b[i + len(mut[2]):])
        sim.pending = True
        sim.request(0, [], sent, 'header:' + mut[0])
        ctx.nt(rc, sample=len(ctx.samples) < 3)
    finally:
        sim.close()


# ---- coverage-guided byte-level campaign (thorough tier; vlib/atheris_target.py)
FUZZ_MAX_LEN = 300
_fz = {}


def fuzz_prepare(ctx):
    sim = CookieSim(ctx, {'expiry': 'session'})
    sim.step(['req', 0, [['set', 'user', 'alice'], ['set', 'n', [1, 2.5, None]]]])
    sim.step(['req', 1, [['set', 'k=&?', {'x': 'é'}]]])
    _fz['sim'] = sim


def fuzz_seeds(ctx):
    sim = _fz['sim']
    out = [c.strip('"').encode('latin1') for c in sim.client if c]
    return out + [b'a?b=c', b'x?\xe9=1', b'?', b'AAAA?user=ImFsaWNlIg==']


def fuzz_one(data, ctx):
    sim = _fz['sim']
    sent = clean(data.decode('latin1'))
    n_before = len(sim.ledger)
    sim.request(0, [], sent, 'fuzz')
    del sim.ledger[n_before:]          # read-only requests issue nothing; keep the state identical for every input
    return '?' in sent and '=' in sent


ROUNDTRIP_VALUES = VALUES + ['/search?q=tea', '<b>hi</b>', '~/notes', 'a>b', 'é?', '中~', {'next': '/a?b=c&d=~e'}, ['?', '>', '~'],
                             'https://e.test/cb?code=~x>y&state=?'] + \
    [('x' * pad) + sym for pad in range(6) for sym in ('?', '>', '~', '?>~', '\xff', '\xfb\xef')]
# strings JSON and Python allow but UTF-8 does not (unpaired surrogates - what a client produces by cutting text in the
# middle of an emoji), characters outside the BMP, control characters and the line separators (round 14)
ROUNDTRIP_VALUES += ['\ud83d', 'party \ud83d', '\udc00x\ud800', ['\ud800'], {'k\udfff': '\ud800'}, '\U0001f600', 'a\U0001f600b\U00010000', '\x00', 'a\x00b',
                     '\x7f\x1f', '\u2028\u2029', '\ufeffx', '\ufffd', {'\U0001f600': ['\u2028']}]


def run_roundtrip(ctx):
    """complete: every key x every value of the catalogue (all three byte alignments of the characters whose base64 symbols
    differ between alphabets) is stored by one request and must be presented, exactly, to the next"""
    ctx.exhaustive = True
    for expiry in ('session', 100):
        for key in KEYS:
            for value in ROUNDTRIP_VALUES:
                case = ['roundtrip', expiry, key, value]
                ctx.case(case)
                ctx.current = case
                sim = CookieSim(ctx, {'expiry': expiry})
                try:
                    sim.step(['req', 0, [['set', key, value]]])
                    sim.step(['req', 0, [['set', 'zq_second', [value, key]]]])
                    sim.step(['req', 0, []])
                    ctx.nt(case, sample=False)
                except Exception as e:
                    ctx.classify_exc(e, case, 'roundtrip')
                    if len(ctx.violations) > 10:
                        return
                finally:
                    sim.close()
    ctx.event('roundtrip-catalogue-complete')
    # complete as well: every kind of server key x every slightly different key another party might hold - a cookie signed with
    # that key is not presented, the server's own still is
    for kkind in ('explicit', 'text-nonascii', 'bytes'):
        cfg = {'expiry': 100, 'key': kkind}
        for q in range(len(similar_keys(server_key(cfg)))):
            case = [['cfg', cfg], ['req', 0, [['set', 'user', 'alice']]], ['tamper', 0, 'foreign', 0, 0, 3, q, []], ['req', 0, []],
                    ['tamper', 1, 'foreign', 0, 0, 3, q, [['set', 'a', 1]]], ['req', 1, []]]
            ctx.case(case)
            ctx.current = case
            sim = CookieSim(ctx, cfg)
            try:
                for op in case[1:]:
                    sim.step(op)
                ctx.nt(['similar-key', kkind, q], sample=False)
            except Exception as e:
                ctx.classify_exc(e, case, 'history')
            finally:
                sim.close()


def shards(tier, seed):
    q = tier == 'quick'
    out = [{'part': 'machine', 'n': 30 if q else 2500, 'steps': 30} for _ in range(10)]
    out.append({'part': 'roundtrip'})
    out += [{'part': 'header', 'n': 250 if q else 20000} for _ in range(6 if q else 5)]
    if not q:
        out.append({'part': 'atheris', 'runs': 400000})
    return out


def run_shard(spec, ctx):
    if spec['part'] == 'roundtrip':
        run_roundtrip(ctx)
    elif spec['part'] == 'machine':
        ctx.machine(machine(), spec['n'], spec['steps'], kind='history')
    elif spec['part'] == 'atheris':
        from vlib.shard import run_atheris
        run_atheris(ctx, 'C16', spec['runs'])
    else:
        ctx.hyp(header_strategy(), header_body, spec['n'], kind='header')


def replay(case, kind, ctx):
    if kind == 'bytes' or (isinstance(case, dict) and 'bytes' in case):
        fuzz_prepare(ctx)
        try:
            fuzz_one(case['bytes'].encode('latin1'), ctx)
        finally:
            _fz['sim'].close()
        return
    if kind == 'roundtrip' or (case and case[0] == 'roundtrip'):
        _, expiry, key, value = case
        sim = CookieSim(ctx, {'expiry': expiry})
        try:
            sim.step(['req', 0, [['set', key, value]]])
            sim.step(['req', 0, [['set', 'zq_second', [value, key]]]])
            sim.step(['req', 0, []])
        finally:
            sim.close()
        return
    if kind == 'header' or (case and case[0] in ('session', 100)):
        header_body(case, ctx)
        return
    sim = CookieSim(ctx, case[0][1])
    try:
        for op in case[1:]:
            sim.step(op)
    finally:
        sim.close()
