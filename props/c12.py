"""C12 - concurrent requests on one Application do not interfere.
Harness-owned schedules (vlib.sched): every single-preemption schedule of request pairs, Hypothesis-drawn
multi-preemption schedules of 2-4 threads, and free-running stress.  Oracle: each response equals the response to the
same request served alone."""
import itertools, re, sys, threading, time
from vlib.sched import Sched, Deadlock
from vlib.wsgi import call

INFO = {
    'level': 'exploration',
    'rule': ('(i) for ordered pairs of requests from a catalogue of 15 kinds on a harness application plus 9 kinds on an application with the '
             'built-in stats / gzip / signed-cookie / GET-parameter middlewares (success with provides-middleware, other route / '
             'parameters / method, 404, 405, non-breaking fall-through, non-breaking error as final answer, uncaught exception, '
             'raised and returned HTTP errors, slash redirect, debug 500): request A runs k line-steps inside clastic / generated '
             'code, B runs to completion, A finishes - for every k (complete for the listed pairs), for some pairs also on an '
             'application that has never served a request (fresh per schedule); (ii) Hypothesis-drawn '
             'multi-preemption schedules of 2-4 threads; (iii) free-running stress, 8 threads with a 1 microsecond switch '
             'interval. Non-trivial = a schedule with at least one preemption strictly inside the preempted request; distinct '
             '(pair, k) / schedules counted.'),
    'exhaustive_scope': 'all single-preemption points of the listed request pairs',
    'assumptions': ['preemption at line granularity under a scheduler that serialises threads; intra-line races are only reachable by the stress part',
                    'a schedule that stalls the scheduler (a lock held across a yield point) is counted as inconclusive, never as a violation'],
}

KINDS = {
    'ok-a': ('GET', '/h/alpha', 't=tokA'), 'ok-b': ('GET', '/h/beta', 't=tokB'), 'int': ('GET', '/n/5', 't=tokN'),
    'post': ('POST', '/p', 't=tokP'), '404': ('GET', '/nothing/here', 't=tok404'), '405': ('GET', '/p', 't=tok405'),
    'nb-then-answer': ('GET', '/nb/x', 't=tokNB'), 'nb-final': ('GET', '/nbonly', 't=tokNF'), 'boom-z': ('GET', '/boom/zed', 't=tokBZ'),
    'boom-y': ('GET', '/boom/why', 't=tokBY'), 'forbid-q': ('GET', '/forbid/que', 't=tokFQ'), 'forbid-r': ('POST', '/forbid/arr', 't=tokFR'),
    'redirect': ('GET', '/branch', 't=tokR'), 'ret404': ('GET', '/ret404/item9', 't=tokR4'), 'ctx': ('GET', '/ctx/cee', 't=tokC'),
    'm2-get': ('GET', '/m2/7', 't=tokMG'), 'm2-post': ('POST', '/m2/8', 't=tokMP'), 'm2-put': ('PUT', '/m2/9', 't=tokMU'),
}
QUICK_PAIRS = [('ok-a', 'ok-b'), ('404', '405'), ('405', '404'), ('boom-z', 'boom-y'), ('forbid-q', 'forbid-r'), ('nb-then-answer', '404'),
               ('redirect', 'ok-a'), ('nb-final', '405'), ('ret404', 'boom-z'), ('ctx', 'post'), ('int', 'nb-final'), ('404', '404'), ('m2-put', 'm2-post'), ('m2-post', 'm2-put'), ('m2-get', 'm2-put')]
IDS = []


def build(debug=False):
    from clastic import Application, Route, Response, Middleware, errors, POST
    from clastic.render import render_basic

    class Tok(Middleware):
        provides = ('tok', 'reqid')

        def request(self, next, request):
            if not getattr(request, '_zq_seen', False):      # one request may pass this middleware on several routes
                request._zq_seen = True
                IDS.append((getattr(request, 'request_id', None), getattr(request, 'request_guid', None)))
            return next(tok=request.args.get('t'), reqid=id(request))

    class EpTok(Middleware):
        endpoint_provides = ('eptok',)

        def endpoint(self, next, tok):
            return next(eptok='ep-' + str(tok))

    def echo(request, tok, reqid, eptok, _dispatch_state, **kw):
        same = 'same' if reqid == id(request) else 'OTHER-REQUEST-OBJECT'
        return '%s|%s|%s|%s|%s|args=%s' % (request.path, sorted(kw.items()), tok, eptok, same, request.args.get('t'))

    def h(name, request, tok, reqid, eptok, _dispatch_state):
        return Response(echo(request, tok, reqid, eptok, _dispatch_state, name=name))

    def n(k, request, tok, reqid, eptok, _dispatch_state):
        return Response(echo(request, tok, reqid, eptok, _dispatch_state, k=k))

    def p(request, tok, reqid, eptok, _dispatch_state):
        return Response(echo(request, tok, reqid, eptok, _dispatch_state))

    def nb(v, request, tok):
        raise errors.Forbidden('nb %s %s %s' % (v, tok, request.path), is_breaking=False)

    def nb2(v, request, tok, reqid, eptok, _dispatch_state):
        return Response('second:' + echo(request, tok, reqid, eptok, _dispatch_state, v=v))

    def nbonly(request, tok):
        raise errors.Forbidden('nbonly %s %s' % (tok, request.path), is_breaking=False)

    def boom(what, request, tok):
        local_marker = 'local-%s-%s' % (what, tok)   # noqa: F841
        raise ZeroDivisionError('boom %s %s %s' % (what, tok, request.path))

    def forbid(who, request, tok):
        raise errors.Forbidden('forbidden %s %s %s' % (who, tok, request.path))

    def ret404(item, request, tok):
        return errors.NotFound('no %s %s %s' % (item, tok, request.path))

    def ctx(c, request, tok, reqid, eptok):
        return {'c': c, 'tok': tok, 'eptok': eptok, 'path': request.path, 'same': reqid == id(request)}

    def branch(request, tok, reqid, eptok, _dispatch_state):
        return Response(echo(request, tok, reqid, eptok, _dispatch_state))
    from clastic import GET as GET_

    def m2get(i, request, tok, reqid, eptok, _dispatch_state):
        return Response('GET-endpoint ' + echo(request, tok, reqid, eptok, _dispatch_state, i=i))

    def m2post(i, request, tok, reqid, eptok, _dispatch_state):
        return Response('POST-endpoint ' + echo(request, tok, reqid, eptok, _dispatch_state, i=i))
    routes = [GET_('/m2/<i>', m2get), POST('/m2/<i>', m2post), Route('/h/<name>', h), Route('/n/<k:int>', n), POST('/p', p), Route('/nb/<v>', nb), Route('/nb/<v>', nb2), Route('/nbonly', nbonly),
              Route('/boom/<what>', boom), Route('/forbid/<who>', forbid), Route('/ret404/<item>', ret404), Route('/ctx/<c>', ctx, render_basic),
              Route('/branch/', branch),
              # (stress part) a branch route with a binding: real traffic has an unbounded set of distinct URLs
              Route('/br/<name>/', lambda name, request, tok: Response('br:%s|%s|%s' % (name, tok, request.path)))]
    return Application(routes, middlewares=[Tok(), EpTok()], debug=debug)


KINDS2 = {
    'set-a': ('GET', '/set/alpha', 'q=qa', None), 'set-b': ('GET', '/set/beta', 'q=qb', None),
    'read-a': ('GET', '/read', 'q=ra', 'A'), 'read-b': ('GET', '/read', 'q=rb', 'B'), 'read-none': ('GET', '/read', 'q=rn', None),
    'big-a': ('GET', '/big/aaa', 'q=ba', 'A'), 'big-b': ('GET', '/big/bbb', 'q=bb', None), 'gz-404': ('GET', '/nothing', 'q=g4', 'B'),
    'gz-boom': ('GET', '/kaboom/kk', 'q=gb', 'A'),
}
PAIRS2 = [('set-a', 'set-b'), ('read-a', 'read-b'), ('set-a', 'read-b'), ('read-a', 'read-none'), ('big-a', 'big-b'), ('big-a', 'read-b'),
          ('gz-404', 'set-a'), ('gz-boom', 'read-a'), ('read-b', 'gz-404')]
_cookies = {}


def build_builtin():
    """the same idea with the built-in middlewares in the stack: signed cookie, gzip, GET-parameter extraction, stats"""
    from clastic import Application, Route, Response
    from clastic.middleware import GzipMiddleware, GetParamMiddleware
    from clastic.middleware.cookie import SignedCookieMiddleware
    from clastic.middleware.stats import StatsMiddleware

    def set_(name, cookie, q):
        cookie['who'] = name
        cookie['q'] = q
        return Response('set %s %s' % (name, q))

    def read(cookie, q, request):
        return Response('read who=%s cq=%s q=%s path=%s' % (cookie.get('who'), cookie.get('q'), q, request.path))

    def big(tag, cookie, q):
        return Response(('%s|%s|%s;' % (tag, q, cookie.get('who'))) * 400, mimetype='text/plain')

    def kaboom(x, cookie, q):
        raise ZeroDivisionError('kaboom %s %s %s' % (x, q, cookie.get('who')))
    app = Application([Route('/set/<name>', set_), Route('/read', read), Route('/big/<tag>', big), Route('/kaboom/<x>', kaboom)],
                      middlewares=[StatsMiddleware(), GzipMiddleware(), SignedCookieMiddleware(secret_key='zq-key'), GetParamMiddleware(['q'])])
    # two client cookies issued up front
    for who in ('A', 'B'):
        r = call(app, '/set/client' + who, query='q=init' + who)
        sc = [v for k, v in r.headers if k.lower() == 'set-cookie'][0]
        _cookies[who] = sc.split(';', 1)[0]
    return app


def requester2(app, kind):
    method, path, query, who = KINDS2[kind]

    def f():
        hdrs = {'Accept-Encoding': 'gzip', 'Accept': 'text/plain'}
        if who:
            hdrs['Cookie'] = _cookies[who]
        r = call(app, path, method, query=query, headers=hdrs)
        body = r.body
        if (r.header('Content-Encoding') or '') == 'gzip':
            import gzip
            try:
                body = b'gzip:' + gzip.decompress(body)      # the gzip header carries a timestamp
            except Exception as e:
                body = b'undecodable gzip: ' + repr(e).encode()
        return (r.status, norm(body), r.header('Set-Cookie'), r.header('Content-Encoding'), (r.header('Content-Type') or '').split(';')[0],
                repr(r.exc) if r.exc else None)
    return f


def setup2():
    if 'app2' not in _state:
        app = build_builtin()
        alone = {}
        for kind in KINDS2:
            f = requester2(app, kind)
            f()
            a, b = f(), f()
            alone[kind] = a
            alone[kind + '#stable'] = (a == b)
        _state['app2'] = (app, alone)
    return _state['app2']


def requester(app, kind):
    if kind in KINDS2:
        return requester2(app, kind)
    method, path, query = KINDS[kind]

    def f():
        r = call(app, path, method, query=query, headers={'Accept': 'text/html' if kind.startswith('boom') else 'text/plain'})
        return (r.status, norm(r.body), r.header('Location'), r.header('Allow'), (r.header('Content-Type') or '').split(';')[0],
                repr(r.exc) if r.exc else None)
    return f


def norm(b):
    b = re.sub(rb'0x[0-9a-f]{6,}', b'0xADDR', b)
    b = re.sub(rb'Server Time:.*?</tr>', b'', b, flags=re.S)
    b = re.sub(rb'(cpu_times|server_time|utc)[^<]{0,80}', b'', b)
    return b


_state = {}


def setup(debug):
    key = ('app', debug)
    if key not in _state:
        app = build(debug)
        alone = {}
        for kind in KINDS:
            f = requester(app, kind)
            f()                         # warm-up (lazy imports, caches)
            a, b = f(), f()
            alone[kind] = a
            alone[kind + '#stable'] = (a == b)
        _state[key] = (app, alone)
    return _state[key]


def steps_alone(app, kind):
    s = Sched(1)
    s.run([requester(app, kind)], [])
    return s.steps[0]


_ID_MARK = [0]


def check_new_ids(ctx, what, rc):
    """identifiers given to the requests of the schedule that has just run: each guid is the one its id gives alone, none repeats"""
    new = IDS[_ID_MARK[0]:]
    _ID_MARK[0] = len(IDS)
    try:
        from clastic.utils import int2hexguid
    except ImportError:
        return True
    for i, g in new:
        if i is None or g is None:
            ctx.mismatch('request-id-missing', '%s: a request was served without the identifiers the framework assigns (request_id %r, request_guid %r)'
                         % (what, i, g), rc)
            return False
        if i is not None and g is not None and int2hexguid(i) != g:
            ctx.mismatch('request-guid-of-other-request', '%s: request id %r was given guid %s; alone it gets %s' % (what, i, g, int2hexguid(i)), rc)
            return False
    gs = [g for _, g in new if g is not None]
    if len(gs) != len(set(gs)):
        ctx.mismatch('request-guid-duplicate', '%s: two requests of one schedule share a request_guid: %r' % (what, new), rc)
        return False
    return True


def check_results(ctx, kinds, results, errors, alone, what, rc):
    if not check_new_ids(ctx, what, rc):
        return False
    for i, kind in enumerate(kinds):
        if errors[i] is not None:
            ctx.mismatch('thread-raised', '%s: thread %d (%s) raised %r' % (what, i, kind, errors[i]), rc)
            return False
        if not alone[kind + '#stable']:
            continue
        if results[i] != alone[kind]:
            exp, got = alone[kind], results[i]
            field = [j for j in range(len(exp)) if exp[j] != got[j]][0]
            name = (['status', 'body', 'Set-Cookie', 'Content-Encoding', 'Content-Type', 'exception'] if kind in KINDS2 else
                    ['status', 'body', 'Location', 'Allow', 'Content-Type', 'exception'])[field]
            ctx.mismatch('interference:' + name, '%s: request %s got %s %r, served alone %r'
                         % (what, kind, name, got[field] if field != 1 else got[field][:160], exp[field] if field != 1 else exp[field][:160]), rc)
            return False
    return True


def run_pairs(spec, ctx):
    ctx.exhaustive = True
    for debug, (ka, kb) in spec['pairs']:
        app, alone = setup2() if debug == 'builtin' else setup(debug)
        fresh = bool(spec.get('fresh'))
        # fresh: every schedule runs on an application that has never served a request (what is built lazily on the first
        # request is then built under preemption); the expected responses are those of the warmed-up twin
        na = steps_alone(build(debug) if fresh else app, ka)
        stride = spec.get('debug_stride', 1) if debug else 1
        if stride > 1:
            ctx.exhaustive = False
        for k in range(0, na + 1, stride):
            case = {'pair': [ka, kb], 'k': k, 'debug': debug}
            if fresh:
                case['fresh'] = True
                app = build(debug)
                ctx.event('fresh-application-schedules')
            ctx.case(case)
            s = Sched(2)
            try:
                results, errors = s.run([requester(app, ka), requester(app, kb)], [(0, k), (1, 1 << 60)])
            except Deadlock as e:
                ctx.event('inconclusive-scheduler-stall')
                ctx.note('a schedule stalled the scheduler: %s' % e)
                continue
            ctx.requests += 2
            try:
                ok = check_results(ctx, [ka, kb], results, errors, alone, 'A=%s preempted after %d of %d steps by B=%s' % (ka, k, na, kb), case)
                if ok and 0 < k < na:
                    ctx.nt(case, sample=len(ctx.samples) < 2 and k == na // 2)
            except Exception as e:
                ctx.classify_exc(e, case, 'pair')
                break
        ctx.event('pairs-enumerated')
    _check_ids(ctx)
    _dedupe(ctx)


_BURST = [0]


def run_burst(spec, ctx):
    """A = a request for a URL that has been served many times, preempted after k steps (every k); meanwhile B serves a *burst* of
    requests for URLs nobody asked for before (whatever the framework keeps per distinct URL grows, fills up, is trimmed ... while
    A is parked); then A resumes.  Every response must be the one the request gets alone."""
    app, alone = setup(False)
    ctx.exhaustive = True
    n = spec['burst']

    def req_a():
        r = call(app, '/br/again0/', 'GET', query='t=tokA', headers={'Accept': 'text/plain'})
        return (r.status, r.body, repr(r.exc) if r.exc else None)
    want_a = (200, b'br:again0|tokA|/br/again0/', None)

    def req_b():
        out = []
        for _ in range(n):
            _BURST[0] += 1
            name = 'fresh%d' % _BURST[0]
            r = call(app, '/br/%s/' % name, 'GET', query='t=tokB', headers={'Accept': 'text/plain'})
            if (r.status, r.body, r.exc) != (200, ('br:%s|tokB|/br/%s/' % (name, name)).encode(), None):
                out.append((name, r.status, r.body[:80], repr(r.exc)))
        return out
    assert req_a() == want_a and req_a() == want_a, req_a()
    s0 = Sched(1)
    s0.run([req_a], [])
    na = s0.steps[0]
    for k in range(0, na + 1, spec.get('stride', 1)):
        case = {'burst': n, 'k': k}
        ctx.case(case)
        s = Sched(2)
        try:
            results, errors = s.run([req_a, req_b], [(0, k), (1, 1 << 60)])
        except Deadlock as e:
            ctx.event('inconclusive-scheduler-stall')
            continue
        ctx.requests += 1 + n
        what = 'A = GET /br/again0/ (served many times before) preempted after %d of %d steps by a burst of %d requests for new URLs' % (k, na, n)
        try:
            if errors[0] is not None or errors[1] is not None:
                ctx.mismatch('thread-raised', '%s: %r' % (what, [e_ for e_ in errors if e_ is not None][0]), case)
            elif results[0] != want_a:
                ctx.mismatch('interference:burst', '%s: A got %r, served alone %r' % (what, results[0], want_a), case)
            elif results[1]:
                ctx.mismatch('interference:burst', '%s: a request of the burst got %r' % (what, results[1][0]), case)
            elif 0 < k < na:
                ctx.nt(['burst', n, k], sample=False)
        except Exception as e:
            ctx.classify_exc(e, case, 'burst')
            break
    ctx.event('burst-schedules-enumerated')
    _dedupe(ctx)


def run_pairs2(spec, ctx):
    """two preemptions: A runs k1 steps, B runs k2 steps, A runs to completion, B finishes (thorough tier; strided)"""
    for debug, (ka, kb) in spec['pairs']:
        app, alone = setup2() if debug == 'builtin' else setup(debug)
        na, nb = steps_alone(app, ka), steps_alone(app, kb)
        for k1 in range(1, na, spec['stride1']):
            for k2 in range(1, nb, spec['stride2']):
                case = {'pair': [ka, kb], 'k': k1, 'k2': k2, 'debug': debug}
                ctx.case(case)
                s_ = Sched(2)
                try:
                    results, errors = s_.run([requester(app, ka), requester(app, kb)], [(0, k1), (1, k2), (0, 1 << 60), (1, 1 << 60)])
                except Deadlock:
                    ctx.event('inconclusive-scheduler-stall')
                    continue
                ctx.requests += 2
                try:
                    if check_results(ctx, [ka, kb], results, errors, alone, 'A=%s runs %d, B=%s runs %d, A finishes, B finishes' % (ka, k1, kb, k2), case):
                        ctx.nt(case, sample=False)
                except Exception as e:
                    ctx.classify_exc(e, case, 'pair')
                    break
        ctx.event('double-preemption-pairs')
    _check_ids(ctx)
    _dedupe(ctx)


def _check_ids(ctx):
    from vlib.shard import Violation
    ids = [i for i, _ in IDS if i is not None]
    if len(ids) != len(IDS) or any(g is None for _, g in IDS):
        ctx.record(Violation('request-id-missing', '%d of %d requests were served without a request_id / request_guid'
                             % (sum(1 for i, g in IDS if i is None or g is None), len(IDS)), {'ids': 'missing'}), 'ids')
    if len(ids) != len(set(ids)):
        ctx.record(Violation('request-id-duplicate', 'request identifiers repeat: %d requests, %d distinct ids' % (len(ids), len(set(ids))),
                             {'ids': 'duplicate'}), 'ids')
    # the second identifier the framework assigns (request_guid): unique too, and the one this request's id gives when served alone
    guids = [g for _, g in IDS if g is not None]
    if len(guids) != len(set(guids)):
        dup = sorted(set(g for g in guids if guids.count(g) > 1))[:2]
        ctx.record(Violation('request-guid-duplicate', 'request_guid values repeat: %d requests, %d distinct guids (e.g. %s given to ids %s)'
                             % (len(guids), len(set(guids)), dup[0], [i for i, g in IDS if g == dup[0]]), {'ids': 'duplicate-guid'}), 'ids')
    else:
        try:
            from clastic.utils import int2hexguid
        except ImportError:
            int2hexguid = None
        if int2hexguid is not None:
            bad = [(i, g) for i, g in IDS if i is not None and g is not None and int2hexguid(i) != g]
            if bad:
                ctx.record(Violation('request-guid-of-other-request', 'request %r was given guid %s; alone it gets %s'
                                     % (bad[0][0], bad[0][1], int2hexguid(bad[0][0])), {'ids': 'guid-mismatch'}), 'ids')
    ctx.extra['request_ids_checked'] = len(ids)
    ctx.extra['request_guids_checked'] = len(guids)
    del IDS[:]
    _ID_MARK[0] = 0


def _dedupe(ctx):
    import json
    best = {}
    for v in ctx.violations:
        k = v['sig']
        if k not in best or len(json.dumps(v['case'], default=repr)) < len(json.dumps(best[k]['case'], default=repr)):
            best[k] = v
    ctx.violations = list(best.values())


def sched_strategy():
    from hypothesis import strategies as st
    kinds = sorted(KINDS)
    return st.tuples(st.lists(st.sampled_from(kinds), min_size=2, max_size=4),
                     st.lists(st.tuples(st.integers(0, 3), st.integers(1, 60)), max_size=12), st.booleans())


def sched_body(case, ctx):
    kinds, runs, debug = case
    rc = [list(kinds), [list(r) for r in runs], debug]
    ctx.current = rc
    app, alone = setup(debug and False)
    schedule = [(t % len(kinds), n) for t, n in runs]
    s = Sched(len(kinds))
    try:
        results, errors = s.run([requester(app, k) for k in kinds], schedule)
    except Deadlock as e:
        ctx.event('inconclusive-scheduler-stall')
        return
    ok = check_results(ctx, kinds, results, errors, alone, 'threads %s under schedule %s' % (kinds, runs), rc)
    if ok and len(runs) >= 2:
        ctx.nt(rc, sample=len(ctx.samples) < 2)


def run_stress(spec, ctx):
    app, alone = setup(False)
    kinds = sorted(KINDS)
    old = sys.getswitchinterval()
    sys.setswitchinterval(1e-6)
    bad = []
    count = [0]
    stop = time.time() + spec['seconds']

    def worker(i):
        j = i
        while time.time() < stop and not bad:
            if j % 3 == 0:
                # a URL nobody asked for before (every third request), or one of a few that come back all the time
                name = 'u%d-%d' % (i, j) if j % 2 else 'again%d' % (j % 5)
                r = call(app, '/br/%s/' % name, 'GET', query='t=tokBR%d' % i, headers={'Accept': 'text/plain'})
                got = (r.status, r.body, repr(r.exc) if r.exc else None)
                want = (200, ('br:%s|tokBR%d|/br/%s/' % (name, i, name)).encode(), None)
                count[0] += 1
                if got != want:
                    bad.append(('fresh-branch-path /br/%s/' % name, got, want))
                j += 7
                continue
            kind = kinds[j % len(kinds)]
            j += 7
            got = requester(app, kind)()
            count[0] += 1
            if alone[kind + '#stable'] and got != alone[kind]:
                bad.append((kind, got, alone[kind]))
    ths = [threading.Thread(target=worker, args=(i,)) for i in range(8)]
    try:
        for t in ths:
            t.start()
        for t in ths:
            t.join()
    finally:
        sys.setswitchinterval(old)
    ctx.evaluations += count[0]
    ctx.requests += count[0]
    ctx.extra['stress_requests'] = count[0]
    case = {'stress': True}
    if bad:
        kind, got, want = bad[0]
        try:
            ctx.mismatch('interference:stress', 'free-running stress: request %s got %r, served alone %r' % (kind, got[:3], want[:2]), case)
        except Exception as e:
            ctx.classify_exc(e, case, 'stress')
    _check_ids(ctx)


def shards(tier, seed):
    q = tier == 'quick'
    if q:
        import random
        kinds = sorted(KINDS)
        allp = [(a, b) for a in kinds for b in kinds if (a, b) not in QUICK_PAIRS]
        random.Random(seed * 31 + 7).shuffle(allp)
        pairs = [(False, p) for p in QUICK_PAIRS + allp[:36]] + [(True, ('boom-z', 'boom-y')), (True, ('404', 'boom-z'))]
    else:
        kinds = sorted(KINDS)
        pairs = [(False, (a, b)) for a in kinds for b in kinds] + [(True, (a, b)) for a in ('boom-z', '404', 'forbid-q', 'ok-a') for b in ('boom-y', '404', '405', 'ok-b')]
    n = 9
    # debug (contextual) error pages cost ~50 ms each under tracing: the quick tier samples every 9th preemption point there
    dbg = [p for p in pairs if p[0] is True]
    plain = [p for p in pairs if p[0] is False]
    plain += [('builtin', p) for p in PAIRS2]
    out = [{'part': 'pairs', 'pairs': plain[i::n]} for i in range(n)]
    out += [{'part': 'pairs', 'pairs': [p], 'debug_stride': 4 if q else 1} for p in dbg]
    if not q:
        for pr in [(False, p) for p in QUICK_PAIRS[:8]] + [('builtin', p) for p in PAIRS2[:4]]:
            out.append({'part': 'pairs2', 'pairs': [pr], 'stride1': 3, 'stride2': 5})
    fresh_pairs = [('ok-a', '404'), ('ok-a', '405'), ('404', 'ok-b'), ('boom-z', '405'), ('redirect', '404'), ('ok-a', 'ok-b'), ('405', '404'), ('nb-final', 'post')]
    if not q:
        fresh_pairs += [(a, b) for a in ('ok-a', '404', 'int') for b in sorted(KINDS) if (a, b) not in fresh_pairs]
    nf = 8 if q else 12        # building an application per schedule costs ~25 ms: one pair per shard in the quick tier
    out += [{'part': 'pairs', 'pairs': [(False, p) for p in fresh_pairs[i::nf]], 'fresh': True} for i in range(nf)]
    out += [{'part': 'sched', 'n': 80 if q else 15000} for _ in range(3)]
    out += [{'part': 'stress', 'seconds': 3 if q else 120} for _ in range(2)]
    out += [{'part': 'burst', 'burst': 70}] if q else [{'part': 'burst', 'burst': b} for b in (70, 130, 260, 520)]
    return out


def run_shard(spec, ctx):
    if spec['part'] == 'pairs':
        run_pairs(spec, ctx)
    elif spec['part'] == 'pairs2':
        run_pairs2(spec, ctx)
    elif spec['part'] == 'burst':
        run_burst(spec, ctx)
    elif spec['part'] == 'sched':
        ctx.hyp(sched_strategy(), sched_body, spec['n'], kind='sched')
        _check_ids(ctx)
    else:
        run_stress(spec, ctx)


def replay(case, kind, ctx):
    if isinstance(case, dict) and 'pair' in case:
        app, alone = setup2() if case.get('debug') == 'builtin' else setup(case.get('debug', False))
        if case.get('fresh'):
            app = build(case.get('debug', False))
        ka, kb = case['pair']
        s = Sched(2)
        sched_ = [(0, case['k']), (1, 1 << 60)] if 'k2' not in case else [(0, case['k']), (1, case['k2']), (0, 1 << 60), (1, 1 << 60)]
        results, errors = s.run([requester(app, ka), requester(app, kb)], sched_)
        check_results(ctx, [ka, kb], results, errors, alone, 'A=%s preempted after %d steps by B=%s' % (ka, case['k'], kb), case)
    elif isinstance(case, dict) and 'burst' in case:
        # (what the framework holds per distinct URL is part of the history: the whole sweep is the reproducible unit)
        run_burst({'burst': case['burst']}, ctx)
    elif isinstance(case, list):
        sched_body(case, ctx)
    else:
        run_stress({'seconds': 3}, ctx)
