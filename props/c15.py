"""C15 - built-in middlewares never change what the client receives.
Differential oracle: the same scenario application with and without the middleware(s); gzip round trip."""
import gzip, itertools, re
from vlib.wsgi import call

INFO = {
    'level': 'exploration',
    'rule': ('(stack of 1-4 distinct built-in middlewares in default configuration, in any order, at application or '
             'route level) x scenario route (small / large / incompressible / binary / empty / streamed Response, rendered '
             'context, redirect, raised and returned 4xx/5xx, non-breaking error, uncaught exception, unknown URL, wrong '
             'method, POST with form data) x method (GET/HEAD/POST) x Accept-Encoding x query string / form body (absent, '
             'well-formed, unconvertible, empty, repeated, undecodable values for the typed GET/POST extractors) x request Cookie (absent, garbage, '
             'malformed, foreign) x SCRIPT_NAME; every middleware alone x every '
             'scenario x every Accept-Encoding is enumerated completely, stacks are drawn by Hypothesis. Non-trivial = the '
             'response is not a plain 200 Response, or the body was actually compressed, or >=2 middlewares are stacked; '
             'distinct cases counted.'),
    'exhaustive_scope': 'each built-in middleware alone x all scenarios x all Accept-Encoding values x GET/HEAD',
    'assumptions': ['no conditional request headers (they legitimately change the status under the cache middleware)',
                    'the body of a 500 produced from an uncaught exception embeds a frame count that depends on the stack depth: compared by status and first line only',
                    'headers a middleware adds (ETag, Date, Set-Cookie, Vary, Cache-Control) are not differences'],
}

MWS = ['gzip', 'cache', 'stats', 'profile', 'cookie', 'ctxproc', 'simplectx', 'getparam', 'postdata', 'scriptroot',
       'ctxproc-names', 'simplectx-names', 'getparam-typed', 'postdata-typed']
# query strings / form bodies for the parameter extractors: absent, well-formed, unconvertible, empty, repeated, undecodable
QUERIES = ['', 'zq_n=7&zq_f=2.5&zq_s=x', 'zq_n=abc', 'zq_n=&zq_f=1.5x', 'zq_n=x&zq_n=3', 'zq_unused=%ff&zq_s=%ff', 'zq_f=nan&zq_n=1.5',
           # the profiler's secondary parameter without its trigger; look-alikes of the trigger
           '_prof_sort=latest', '_prof_sort=', '_prof_sort=time&zq_n=1', '_profile=1&prof=1', '_PROF=true']
COOKIES = [None, 'clastic_cookie=garbage', 'clastic_cookie="eyJhIjoxfQ==?expires=x&k=v"', 'clastic_cookie=; other=1', 'clastic_cookie=\xff\xfe?a', 'a=b; clastic_cookie=x?y=z=w']
SCRIPTS = ['', '/mnt', '/a b/\xc3\xa9', None]          # None: the SCRIPT_NAME key is absent from the environ (PEP 3333 allows that when empty)
FORMS = [b'x=hello+world&y=2', b'x=1&zp_n=abc&zq_unused2=v', b'zp_n=&zp_f=--1', b'zp_n=12&zp_f=1e3&x=%ff']
SCENARIOS = ['small', 'large', 'random', 'binary', 'empty', 'streamed', 'ctx', 'ctxfalsy', 'ctxlist', 'redirect', 'raise403', 'ret404', 'raise500',
             'ret503', 'nb403', 'boom', 'unknown', 'wrongmethod', 'form', 'status201', 'nocontent', 'preencoded', 'unicode',
             # compressible bodies whose length sits at / next to the buffer sizes an implementation may chunk by
             'len4097', 'len8193', 'len16384', 'len16385', 'len32769', 'len65537', 'len131073']
ENCODINGS = [None, 'gzip', 'gzip;q=0', '*', 'identity', 'deflate, gzip;q=0.5', 'gzip, deflate, br', 'GZIP', 'gzip;q=0.0, identity', 'x-gzip']
PREENCODED = gzip.compress(b'already compressed ' * 200, mtime=0)   # fixed bytes: no wall-clock timestamp in the oracle
RAND = bytes((i * 7919 + (i >> 3) * 104729 + (i * i) % 251) % 256 for i in range(3000))


# scenarios whose endpoints *consume* what the extractors / script root provide (falling back to the request itself
# when the middleware is absent): a complete family in the 'alone' part only - not in the drawn strategy, so the draws
# of the random part stay what they were
CONSUMERS = ['useq', 'usep', 'useroot']
CQUERIES = QUERIES[:7] + ['zp_n=5&zp_f=2.5&zq_unused2=fromquery', 'zq_n=1&zp_n=2']
CFORMS = FORMS + [b'zq_n=9&zq_f=0.5&zq_s=fromform&zq_unused=fromform', b'zp_n=3&zq_n=4']
MISSING = object()


def make_mw(name):
    from clastic import middleware as m
    from clastic.middleware.stats import StatsMiddleware
    from clastic.middleware.cookie import SignedCookieMiddleware
    from clastic.middleware.form import PostDataMiddleware
    from clastic.middleware.url import ScriptRootMiddleware
    return {'gzip': lambda: m.GzipMiddleware(), 'cache': lambda: m.HTTPCacheMiddleware(), 'stats': lambda: StatsMiddleware(),
            'profile': lambda: m.SimpleProfileMiddleware(), 'cookie': lambda: SignedCookieMiddleware(),
            'ctxproc': lambda: m.ContextProcessor(), 'simplectx': lambda: m.SimpleContextProcessor(),
            # default (non-overwriting) processors whose names are all already present in every context the scenarios render
            'ctxproc-names': lambda: m.ContextProcessor(defaults={'a': 'DEFAULT-A', 'c': 'DEFAULT-C'}),
            'simplectx-names': lambda: m.SimpleContextProcessor('a', c='DEFAULT-C'),
            'getparam': lambda: m.GetParamMiddleware(['zq_unused']), 'postdata': lambda: PostDataMiddleware(['zq_unused2']),
            'getparam-typed': lambda: m.GetParamMiddleware({'zq_n': int, 'zq_f': float, 'zq_s': str}),
            'postdata-typed': lambda: PostDataMiddleware({'zp_n': int, 'zp_f': float}),
            'scriptroot': lambda: ScriptRootMiddleware()}[name]()


def build(stack, level):
    from clastic import Application, Route, Response, errors, redirect, POST
    from clastic.render import render_basic
    from werkzeug.wrappers import BaseResponse

    def gen():
        yield b'chunk-1;'
        yield b'chunk-2;' * 50
        yield b'end'
    eps = {
        'small': lambda: Response('hello world'),
        'large': lambda: Response('lorem ipsum dolor sit amet ' * 2000, mimetype='text/plain'),
        'random': lambda: Response(RAND, mimetype='application/octet-stream'),
        'binary': lambda: Response(b'\xff\xfe\x00\x01' * 600 + b'tail', mimetype='image/png'),
        'empty': lambda: Response(''),
        'streamed': lambda: Response(gen(), mimetype='text/plain'),
        'ctx': lambda: {'a': 1, 'b': ['x', 'y' * 500], 'c': None},
        'ctxfalsy': lambda: {'a': 0, 'c': '', 'd': [], 'e': False},
        'ctxlist': lambda: [1, 2, {'k': 'v' * 300}],
        'redirect': lambda: redirect('/small'),
        'status201': lambda: Response('created ' * 100, status=201),
        'nocontent': lambda: Response('', status=204),
        'preencoded': lambda: Response(PREENCODED, headers={'Content-Encoding': 'gzip'}),
        'unicode': lambda: Response('é☃ ' * 400, mimetype='text/html'),
    }
    for n_ in (4097, 8193, 16384, 16385, 32769, 65537, 131073):
        # (ends in a distinctive last byte: a body that comes back one byte short must not look the same)
        eps['len%d' % n_] = (lambda n=n_: Response((b'abcdefgh' * (n // 8 + 1))[:n - 1] + b'Z', mimetype='text/plain'))

    def raise403():
        raise errors.Forbidden('no entry ' * 100)

    def ret404():
        return errors.NotFound('gone missing ' * 100)

    def raise500():
        raise errors.InternalServerError()

    def ret503():
        return errors.ServiceUnavailable()

    def nb403():
        raise errors.Forbidden(is_breaking=False)

    def boom():
        raise ZeroDivisionError('boom')

    def form(request):
        return Response('form:%s' % request.form.get('x', '-') * 50)

    def useq(request, zq_n=MISSING, zq_f=MISSING, zq_s=MISSING, zq_unused=MISSING):
        got = [request.args.get(n, None, t) if v is MISSING else v
               for n, t, v in (('zq_n', int, zq_n), ('zq_f', float, zq_f), ('zq_s', str, zq_s), ('zq_unused', str, zq_unused))]
        return Response('useq:%r' % (got,))

    def usep(request, zp_n=MISSING, zp_f=MISSING, zq_unused2=MISSING):
        got = [request.form.get(n, None, t) if v is MISSING else v
               for n, t, v in (('zp_n', int, zp_n), ('zp_f', float, zp_f), ('zq_unused2', str, zq_unused2))]
        return Response('usep:%r' % (got,))

    def useroot(request, script_root=MISSING):
        return Response('useroot:%r' % (request.script_root if script_root is MISSING else script_root,))
    mws = [make_mw(n) for n in stack]
    route_mws = mws if level == 'route' else []
    app_mws = mws if level == 'app' else []
    routes = []
    for name, ep in eps.items():
        render = render_basic if name in ('ctx', 'ctxlist', 'ctxfalsy') else None
        routes.append(Route('/' + name, ep, render, middlewares=route_mws))
    for name, ep in [('raise403', raise403), ('ret404', ret404), ('raise500', raise500), ('ret503', ret503), ('nb403', nb403), ('boom', boom)]:
        routes.append(Route('/' + name, ep, middlewares=route_mws))
    routes.append(POST('/wrongmethod', lambda: Response('posted'), middlewares=route_mws))
    routes.append(POST('/form', form, middlewares=route_mws))
    for name, ep in [('useq', useq), ('usep', usep), ('useroot', useroot)]:
        routes.append(Route('/' + name, ep, middlewares=route_mws))
    return Application(routes, middlewares=app_mws)


_apps = {}


def get_app(stack, level):
    key = (tuple(stack), level)
    if key not in _apps:
        if len(_apps) > 300:
            _apps.clear()
        _apps[key] = build(stack, level)
    return _apps[key]


def request_for(scenario, method, q=0):
    path = '/' + ('no/such/url' if scenario == 'unknown' else scenario)
    body, headers = b'', {}
    if scenario in CONSUMERS:
        if method == 'POST':
            body = CFORMS[(q // len(CQUERIES)) % len(CFORMS)]
            headers['Content-Type'] = 'application/x-www-form-urlencoded'
        return path, method, body, headers
    if scenario == 'form' or (q and method == 'POST'):
        method = 'POST'
        body = FORMS[q % len(FORMS)]
        headers['Content-Type'] = 'application/x-www-form-urlencoded'
    if q and COOKIES[q % len(COOKIES)] is not None:
        headers['Cookie'] = COOKIES[q % len(COOKIES)]
    return path, method, body, headers


def accepts_gzip(enc):
    """does this Accept-Encoding value permit gzip?  True/False/None(undetermined)"""
    if enc is None:
        return False
    q_gzip = q_star = None
    for part in enc.split(','):
        bits = [b.strip() for b in part.split(';')]
        name = bits[0].lower()
        q = 1.0
        for b in bits[1:]:
            if b.lower().startswith('q='):
                try:
                    q = float(b[2:])
                except ValueError:
                    return None
        if name == 'gzip':
            q_gzip = q
        elif name == '*':
            q_star = q
    if q_gzip is not None:
        return q_gzip > 0
    if q_star is not None:
        return q_star > 0
    return False


def first_line(b):
    return b.split(b'\n', 1)[0]


def body(case, ctx):
    stack, level, scenario, method, enc = case[:5]
    q = case[5] if len(case) > 5 else 0
    rc = [list(stack), level, scenario, method, enc, q]
    ctx.current = rc
    base = get_app([], 'app')
    app = get_app(stack, level)
    path, method, reqbody, headers = request_for(scenario, method, q)
    query = CQUERIES[q % len(CQUERIES)] if scenario in CONSUMERS else QUERIES[q % len(QUERIES)]
    if enc is not None:
        headers['Accept-Encoding'] = enc
    script = SCRIPTS[(q // 3) % len(SCRIPTS)] if q else ''
    r0 = call(base, path, method, query=query, headers=dict(headers), body=reqbody, script_name=script)
    r1 = call(app, path, method, query=query, headers=dict(headers), body=reqbody, script_name=script)
    ctx.requests += 2
    what = '%s %s%s Accept-Encoding=%r%s with %s at %s level' % (method, path, '?' + query if query else '', enc,
                                                                ' form %r' % reqbody if reqbody else '', '+'.join(stack), level)
    if r0.exc is not None:
        raise AssertionError('baseline raised %r' % r0.exc)
    if r1.exc is not None:
        ctx.mismatch('raises-with-' + culprit(stack), '%s: %r' % (what, r1.exc), rc)
        return
    if r1.status != r0.status:
        ctx.mismatch('status-changed-by-' + culprit(stack), '%s: status %s, without the middleware %s; body %r'
                     % (what, r1.status, r0.status, r1.body[:100]), rc)
        return
    sent = r1.body
    ce = (r1.header('Content-Encoding') or '').lower()
    ce0 = (r0.header('Content-Encoding') or '').lower()
    decoded = sent
    compressed = False
    if ce == 'gzip' and ce0 != 'gzip':
        compressed = True
        ok = accepts_gzip(enc)
        if ok is False:
            ctx.mismatch('gzip-not-accepted', '%s: body was gzip-encoded although the client does not accept gzip' % what, rc)
            return
        if method != 'HEAD':
            try:
                decoded = gzip.decompress(sent)
            except Exception as e:
                ctx.mismatch('gzip-corrupt', '%s: body does not decompress: %r' % (what, e), rc)
                return
        vary = ','.join(r1.headers_all('Vary')).lower()
        if 'accept-encoding' not in vary:
            ctx.mismatch('gzip-no-vary', '%s: compressed response without Vary: Accept-Encoding (%r)' % (what, vary), rc)
            return
    if method != 'HEAD':
        if scenario == 'boom':
            same = first_line(decoded) == first_line(r0.body)
        else:
            same = decoded == r0.body
        if not same:
            ctx.mismatch('body-changed-by-' + culprit(stack), '%s: decoded body %r..., without the middleware %r...'
                         % (what, decoded[:80], r0.body[:80]), rc)
            return
        cl = r1.header('Content-Length')
        if cl is not None and r1.status not in (204, 304) and int(cl) != len(sent):
            ctx.mismatch('content-length', '%s: Content-Length %s but %d bytes sent' % (what, cl, len(sent)), rc)
            return
    else:
        if sent:
            ctx.mismatch('head-body', '%s: HEAD response carries %d body bytes' % (what, len(sent)), rc)
            return
        g = call(app, path, 'GET', query=query, headers=dict(headers), script_name=script)
        ctx.requests += 1
        if g.header('Content-Length') is not None and r1.header('Content-Length') is not None and \
                g.header('Content-Length') != r1.header('Content-Length') and scenario != 'boom':
            ctx.mismatch('head-content-length', '%s: HEAD Content-Length %s, GET %s' % (what, r1.header('Content-Length'), g.header('Content-Length')), rc)
            return
    if 'gzip' in stack and accepts_gzip(enc) is False and method != 'HEAD':
        # the gzip-accepting variant of the same URL: if that one is compressed, this one must carry Vary too
        h2 = dict(headers)
        h2['Accept-Encoding'] = 'gzip'
        g = call(app, path, method, query=query, headers=h2, body=reqbody, script_name=script)
        ctx.requests += 1
        if (g.header('Content-Encoding') or '').lower() == 'gzip' and ce0 != 'gzip':
            vary = ','.join(r1.headers_all('Vary')).lower()
            if 'accept-encoding' not in vary:
                ctx.mismatch('identity-variant-no-vary', '%s: the gzip variant is compressed but this variant lacks Vary: Accept-Encoding' % what, rc)
                return
    ctx.event('scenario-' + scenario)
    if compressed:
        ctx.event('compressed')
    if q:
        ctx.event('with-parameters')
    if compressed or len(stack) >= 2 or scenario not in ('small', 'large', 'random', 'binary', 'empty', 'unicode'):
        ctx.nt(rc, sample=len(ctx.samples) < 3)


def culprit(stack):
    return stack[0] if len(stack) == 1 else 'stack'


def strategy():
    from hypothesis import strategies as st
    return st.tuples(st.lists(st.sampled_from(MWS), min_size=1, max_size=4, unique=True), st.sampled_from(['app', 'app', 'route']),
                     st.sampled_from(SCENARIOS), st.sampled_from(['GET', 'GET', 'HEAD', 'POST']), st.sampled_from(ENCODINGS),
                     st.one_of(st.just(0), st.integers(0, 143)))


def shards(tier, seed):
    out = [{'part': 'alone', 'mws': MWS[i::5]} for i in range(5)]
    n = 150 if tier == 'quick' else 12000
    out += [{'part': 'random', 'n': n} for _ in range(11)]
    return out


def run_shard(spec, ctx):
    if spec['part'] == 'alone':
        ctx.exhaustive = True
        cases = [[[mw], level, sc, method, enc, 0] for mw in spec['mws'] for level in ('app', 'route') for sc in SCENARIOS
                 for method in ('GET', 'HEAD') for enc in ENCODINGS]
        # the parameter extractors: every query string / form body as well
        cases += [[[mw], level, sc, method, None, q] for mw in spec['mws'] if 'param' in mw or 'postdata' in mw
                  for level in ('app', 'route') for sc in SCENARIOS for method in ('GET', 'HEAD', 'POST') for q in range(1, 49)]
        # the signed cookie and script root: every request cookie (garbage, malformed, foreign) / SCRIPT_NAME
        cases += [[[mw], level, sc, method, None, q] for mw in spec['mws'] if mw in ('cookie', 'scriptroot')
                  for level in ('app', 'route') for sc in SCENARIOS for method in ('GET', 'HEAD') for q in range(1, 19)]
        cases += [[[mw], level, sc, method, None, q] for mw in spec['mws'] if mw == 'profile'
                  for level in ('app', 'route') for sc in SCENARIOS for method in ('GET', 'HEAD', 'POST') for q in range(1, len(QUERIES))]
        # consumers of the provided values: every query string x every form body, GET and POST, each extractor alone
        # and all of them stacked in both orders
        ext = [mw for mw in spec['mws'] if 'param' in mw or 'postdata' in mw or mw == 'scriptroot']
        allext = ['getparam', 'getparam-typed', 'postdata', 'postdata-typed', 'scriptroot']
        stacks = [[mw] for mw in ext] + ([allext, allext[::-1]] if 'getparam' in spec['mws'] else [])
        cases += [[st_, level, sc, method, None, q] for st_ in stacks for level in ('app', 'route') for sc in CONSUMERS
                  for method in ('GET', 'POST') for q in range(len(CQUERIES) * len(CFORMS))]
        ctx.loop(cases, body, kind='case', max_sigs=12)
    else:
        ctx.hyp(strategy(), body, spec['n'], kind='case')


def replay(case, kind, ctx):
    body(case, ctx)
