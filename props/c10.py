"""C10 - embedding a sub-application is equivalent to declaring its routes flat.
Differential oracle: the harness flattens the generated application tree itself (merge rule, resource precedence,
slash-mode inheritance, render-factory rule, outer error handling) and compares both applications request by request."""
import json
from vlib import inject as I, urlmodel as U
from vlib.wsgi import call

INFO = {
    'level': 'exploration',
    'rule': ('random trees of applications up to depth 3 (prefixes with/without trailing slash and "/", resources shared '
             'between the outermost application and inner levels, middleware lists sharing / not sharing unique types, a slash '
             'mode, an error handler and optionally a render factory per level, inherit_slashes / rebind_render on and off per '
             'embedding, routes with methods, behaviours and callable / factory-argument renders); each tree is compared with the '
             'independently flattened declaration on the C06 request catalogue under every prefix and outside; an application may be '
             'mounted more than once (generated, plus the complete 256-tree family of one leaf under two mid-level applications x '
             'render factory present/absent at four levels x rebind_render at four mounts). Non-trivial = '
             'depth >=2, or a resource name shared with the serving application, or a unique middleware type at two levels, or '
             'differing slash modes; distinct trees counted.'),
    'assumptions': ['both sides execute clastic; the flattening logic is the harness\'s own',
                    'render arguments follow the rule written down in BoundRoute.__init__ (re-interpreted, when re-binding was requested or while unfulfilled, by the most recently bound application that has a render factory)',
                    'names defined only by two inner levels are not generated'],
}

PATTERNS = ['/x', '/x/', '/x/<a>', '/<a>', '/<a>/<b?>', '/z/<p*>', '/', '/y/<q+>/', '/n/<k:int>']
METHODS = [None, None, ['GET'], ['POST'], ['GET', 'POST'], ['get'], ['Post', 'get']]
BEH = ['ctx', 'ctx', 'response', 'raise403', 'ret404', 'nb403', 'boom']
PATHS = ['/x', '/x/', '/x/1', '/x/a', '/z', '/', '/x/a/b', '/y/1/2/', '/y/1', '//x', '/y', '/z/q/r', '', '/n/7', '/n/7/']
REQM = ['GET', 'POST', 'HEAD', 'DELETE']
RES = ['r1', 'r2', 'r3']
TRACE = []


def strategy():
    from hypothesis import strategies as st

    @st.composite
    def node(draw, depth, mid_factory):
        n = {'mode': draw(st.sampled_from(list(U.MODES))), 'res': draw(st.lists(st.sampled_from(RES), max_size=2, unique=True)) if depth == 0 else [],
             'mws': draw(st.lists(st.integers(0, 5), max_size=3, unique=True)), 'handler': 'default',
             'factory': draw(st.booleans()) and True, 'items': []}
        if depth > 0:
            # an inner level may define a name only if no other inner level on this path does; sharing with the root is fine
            n['res'] = draw(st.lists(st.sampled_from(RES + ['i%d' % depth]), max_size=2, unique=True))
        # an error handler whose render_error reads a resource can only sit on an application that defines it
        n['handler'] = draw(st.sampled_from(['default', 'default', 'teapot', 'debug'] + (['echo-r1', 'echo-r1'] if 'r1' in n['res'] else [])))
        nitems = draw(st.integers(1, 3))
        for _ in range(nitems):
            if depth < 2 and draw(st.integers(0, 9)) >= 8:
                # an application built earlier in the tree (the k-th completed one) is mounted once more, here
                n['items'].append(['again', draw(st.sampled_from(['/s', '/m/', '/t/u', '/again'])), draw(st.booleans()), draw(st.booleans()),
                                   draw(st.integers(0, 5))])
            elif depth < 2 and draw(st.integers(0, 9)) < (5 if depth == 0 else 3):
                child_mid = mid_factory or (depth >= 1 and n['factory'])
                sub = draw(node(depth + 1, child_mid))
                n['items'].append(['app', draw(st.sampled_from(['/s', '/s/', '/', '/t/u', '/x'])), draw(st.booleans()), draw(st.booleans()), sub])
            else:
                rk = draw(st.sampled_from(['none', 'callable', 'arg', 'arg']))
                n['items'].append(['route', draw(st.sampled_from(PATTERNS)), draw(st.sampled_from(METHODS)), draw(st.sampled_from(BEH)), rk,
                                   draw(st.lists(st.sampled_from(RES), max_size=2, unique=True))])
        return n
    return node(0, False)


def expand(tree):
    """resolve 'again' items: ['again', prefix, inherit, rebind, k] becomes ['app', prefix, inherit, rebind, sub, level_id] where sub /
    level_id are those of the k-th application completed so far in build order (depth first, items in order); without one it is dropped"""
    import copy
    tree = copy.deepcopy(tree)
    order = []

    def walk(node, level_id):
        items = []
        for i, it in enumerate(node['items']):
            if it[0] == 'again':
                if not order:
                    continue
                lid, sub = order[it[4] % len(order)]
                items.append(['app', it[1], it[2], it[3], sub, lid])
            elif it[0] == 'app':
                lid = '%s.%d' % (level_id, i)
                walk(it[4], lid)
                order.append((lid, it[4]))
                items.append(it[:5] + [lid])
            else:
                items.append(it + [i])
        node['items'] = items
    walk(tree, 'L')
    return tree


def inner_defs_ok(tree):
    """no name defined by two different inner levels (anywhere on one path or across siblings is fine only if on different paths)"""
    def walk(n, depth, seen):
        mine = set(n['res']) if depth > 0 else set()
        if mine & seen:
            return False
        for it in n['items']:
            if it[0] == 'app' and not walk(it[4], depth + 1, seen | mine):
                return False
        return True
    return walk(tree, 0, set())


_MW = {}


def mw_obj(tid):
    from clastic import Middleware
    if tid not in _MW:
        def request(next, _tid=tid):
            TRACE.append('mw%d>' % _tid)
            try:
                return next()
            finally:
                TRACE.append('<mw%d' % _tid)
        if tid == 5:
            # an optional consumer: takes two resource names with defaults - whatever level defines them, it must be handed
            # the value the flat declaration hands it (or its default when nobody defines them)
            def request(next, r1='(r1 unset)', r2='(r2 unset)', _tid=tid):     # noqa: F811
                TRACE.append('mw%d[r1=%s,r2=%s]>' % (_tid, r1, r2))
                try:
                    return next()
                finally:
                    TRACE.append('<mw%d' % _tid)
        # odd types derive from the preceding even one: different middleware types that are related by inheritance
        base = type(mw_obj(tid - 1)) if tid % 2 else Middleware
        cls = type('C10MW%d' % tid, (base,), {'unique': tid != 4})
        inst = cls()
        inst.request = request
        _MW[tid] = inst
    return _MW[tid]


def handler(kind):
    from clastic import errors
    from clastic.errors import ErrorHandler, ContextualErrorHandler
    if kind == 'teapot':
        class Teapot(ErrorHandler):
            def render_error(self, request, _error):
                return errors.ImATeapot('teapot for %s' % _error.code)
        return Teapot()
    if kind == 'echo-r1':
        class EchoRes(ErrorHandler):
            def render_error(self, request, _error, r1):
                return errors.ImATeapot('error %s rendered with r1=%s' % (_error.code, r1))
        return EchoRes()
    if kind == 'debug':
        return ContextualErrorHandler()
    return None


def factory(level_id):
    from clastic import Response

    def fac(arg):
        def render(context):
            return Response('F[%s](%s):%s' % (level_id, arg, json.dumps(context, sort_keys=True)))
        return render
    return fac


def make_endpoint(rid, beh, names, uses, values):
    """endpoint closing over nothing level-specific: resource values arrive by injection"""
    from clastic import Response, errors
    ns = {'Response': Response, 'errors': errors, 'TRACE': TRACE, 'rid': rid}
    params = list(names) + [u for u in uses if u not in names]
    seen = '{%s}' % ', '.join('%r: repr(%s)' % (p, p) for p in params)
    bodies = {
        'ctx': "return {'rid': rid, 'seen': %s}" % seen,
        'response': "return Response('route-%%s %%s' %% (rid, sorted(%s.items())))" % seen,
        'raise403': "raise errors.Forbidden('r%s' % rid)",
        'ret404': "return errors.NotFound('r%s' % rid)",
        'nb403': "raise errors.Forbidden('nb%s' % rid, is_breaking=False)",
        'boom': "raise ZeroDivisionError('boom-%s' % rid)",
    }
    exec('def ep(%s):\n    TRACE.append("ep%%s" %% rid)\n    %s\n' % (', '.join(params), bodies[beh]), ns)
    return ns['ep']


def callable_render(rid):
    from clastic import Response

    def render(context, r1='(r1 unset)'):
        return Response('R%s[r1=%s]:%s' % (rid, r1, json.dumps(context, sort_keys=True)))
    return render


class Builder(object):
    def __init__(self, tree):
        self.tree = tree
        self.rid = 0
        self.values = {}      # (level_id, name) -> value
        self.eps = {}         # rid -> endpoint (shared by both applications)
        self.renders = {}
        self.built = {}       # level_id -> Application (an application may be mounted more than once)

    def value(self, level_id, name):
        return self.values.setdefault((level_id, name), 'val[%s@%s]' % (name, level_id))

    # ---- the nested application, built the way a user would
    def nested(self, node, level_id='L', available=()):
        from clastic import Application, Route, SubApplication
        entries = []
        res = dict((n, self.value(level_id, n)) for n in node['res'])
        avail = set(available) | set(node['res'])
        for it in node['items']:
            if it[0] == 'route':
                _, pattern, methods, beh, rk, uses, i = it
                rid = '%s.%d' % (level_id, i)
                names = [e[1] for e in U.parse(pattern)[0] if e[0] == 'b']
                uses = [u for u in uses if u in node['res']]     # must be satisfiable inside its own application
                ep = self.eps.setdefault(rid, make_endpoint(rid, beh, names, uses, None))
                render = None
                if rk == 'callable':
                    render = self.renders.setdefault(rid, callable_render(rid))
                elif rk == 'arg':
                    render = 'tmpl-%s' % rid
                entries.append(Route(pattern, ep, render, methods=methods))
            else:
                _, prefix, inherit, rebind, sub, lid = it
                if lid not in self.built:
                    self.built[lid] = self.nested(sub, lid, avail)
                child = self.built[lid]
                entries.append(SubApplication(prefix, child, rebind_render=rebind, inherit_slashes=inherit))
        return Application(entries, resources=res, middlewares=[mw_obj(t) for t in node['mws']], slash_mode=node['mode'],
                           error_handler=handler(node['handler']), render_factory=factory(level_id) if node['factory'] else None)

    # ---- the flat declaration, computed by the harness
    def flat(self):
        from clastic import Application, Route
        root = self.tree
        routes = []

        def walk(node, level_id, prefix, stack, resources, chain):
            # chain: list of (node, inherit, rebind) from the root's child down to this node
            res = dict(resources)
            for n in node['res']:
                res.setdefault(n, self.value(level_id, n))      # outer levels were entered first: they win
            merged = I.merge(stack, [{'tid': t, 'unique': t != 4, 'reorderable': True} for t in node['mws']])
            for it in node['items']:
                if it[0] == 'app':
                    _, pfx, inherit, rebind, sub, lid = it
                    walk(sub, lid, prefix + pfx.rstrip('/'), merged, res, chain + [(node, inherit, rebind, level_id)])
                    continue
                _, pattern, methods, beh, rk, uses, i = it
                rid = '%s.%d' % (level_id, i)
                # slash mode: the route's own application's, replaced by each embedding application that inherits
                mode = node['mode']
                for parent, inherit, _rb, _lid in reversed(chain):
                    if inherit:
                        mode = parent['mode']
                # renderer
                render = None
                if rk == 'callable':
                    render = self.renders[rid]
                elif rk == 'arg':
                    # the rule documented in BoundRoute.__init__: a render argument is interpreted by the route's own application if
                    # that has a factory; at every embedding it is re-interpreted - when re-binding was requested, or while it is
                    # still unfulfilled - by the most recently bound application that has a factory
                    fac = level_id if node['factory'] else None
                    bound = [(node, level_id)]
                    for parent, _inh, rebind, parent_id in reversed(chain):
                        bound.append((parent, parent_id))
                        latest = next((lid for n_, lid in reversed(bound) if n_['factory']), None)
                        if (rebind or fac is None) and latest is not None:
                            fac = latest
                    render = factory(fac)('tmpl-%s' % rid) if fac else None
                    if fac is None:
                        render = 'unfulfilled-%s' % rid      # no factory anywhere: stays an unusable argument
                routes.append((prefix + pattern, self.eps[rid], render, methods, mode, merged, res, rid))
        walk(root, 'L', '', [], {}, [])
        # the outermost application's own list stays application-level (it also serves the catch-all route);
        # what the harness merged in from inner levels is declared on the route
        nroot = len(root['mws'])
        root_res = dict((n_, self.value('L', n_)) for n_ in root['res'])
        app = Application(resources=root_res, slash_mode=root['mode'], error_handler=handler(root['handler']),
                          middlewares=[mw_obj(t) for t in root['mws']])
        for pattern, ep, render, methods, mode, merged, res, _rid in routes:
            assert [m['tid'] for m in merged[:nroot]] == list(root['mws'])
            res = dict((k_, v_) for k_, v_ in res.items() if k_ not in root_res)     # the outermost application's own stay on it
            r = Route(pattern, ep, render, methods=methods, slash_mode=mode, resources=res,
                      middlewares=[mw_obj(m['tid']) for m in merged[nroot:]])
            app.add(r, inherit_slashes=False)
        return app, routes


def lids(node):
    out = []
    for it in node['items']:
        if it[0] == 'app':
            out.append(it[5])
            out += lids(it[4])
    return out


def prefixes(node, prefix=''):
    out = [prefix]
    for it in node['items']:
        if it[0] == 'app':
            out += prefixes(it[4], prefix + it[1].rstrip('/'))
    return out


def nontrivial(tree):
    depth = [0]
    modes = set()
    tids = {}
    shared = [False]
    dup = [False]

    def walk(n, d):
        depth[0] = max(depth[0], d)
        modes.add(n['mode'])
        if d > 0 and set(n['res']) & set(tree['res']):
            shared[0] = True
        for t in n['mws']:
            if t in tids and tids[t] != d and t != 4:
                dup[0] = True
            tids.setdefault(t, d)
        for it in n['items']:
            if it[0] == 'app':
                walk(it[4], d + 1)
    walk(tree, 0)
    return depth[0] >= 2 or shared[0] or dup[0] or len(modes) > 1


def body(tree, ctx, paths=None):
    rc = tree
    original = tree
    tree = expand(tree)
    if not inner_defs_ok(tree):
        ctx.event('skipped-name-at-two-inner-levels')
        return
    if json.dumps(tree).count('"L.') and len(set(lids(tree))) < len(lids(tree)):
        ctx.event('application-mounted-twice')
    b = Builder(tree)
    try:
        napp = b.nested(tree)
    except Exception as e:
        nexc = e
        napp = None
    try:
        fapp, routes = b.flat()
    except Exception as e:
        if napp is None:
            ctx.event('both-rejected')
            return
        ctx.mismatch('flat-rejected', 'the nested tree constructs but the flat declaration raised %r' % e, rc)
        return
    if napp is None:
        ctx.mismatch('nested-rejected', 'the flat declaration constructs but the nested tree raised %r' % nexc, rc)
        return
    got = [r.pattern for r in napp.routes]
    want = [r.pattern for r in fapp.routes]
    if got != want:
        ctx.mismatch('route-table', 'nested routes %r, flat %r' % (got, want), rc)
        return
    expected_chain = {}
    for r_ in routes:
        expected_chain.setdefault(r_[7], set()).add(tuple(m['tid'] for m in r_[5]))     # one route under several mounts: any of its stacks
    reqs = []
    for pfx in sorted(set(prefixes(tree))):
        for p in PATHS:
            reqs.append(pfx + p)
    reqs += ['/outside', '/s', '/t']
    if paths:
        reqs = list(paths)
    for path in sorted(set(reqs)):
        if not path.startswith('/'):
            continue
        for method in REQM:
            out = []
            for app in (napp, fapp):
                del TRACE[:]
                r = call(app, path, method, headers={'Accept': 'text/plain'})
                ctx.requests += 1
                out.append((r.status, norm_body(r.body), r.header('Location'), list(TRACE), repr(r.exc) if r.exc else None))
            # the flat declaration goes through the framework's own merge too; the middlewares that ran before each endpoint are
            # therefore also compared with the harness's merge (outer list, then inner; a unique *type* once, outermost)
            problem = chain_problem(out[0][3], expected_chain)
            if problem:
                ctx.mismatch('differs-middleware', '%s %s: %s' % (method, path, problem), dict(tree=original, request=[path, method]))
                return
            if out[0] != out[1]:
                diff = [k for k, (a, c) in enumerate(zip(out[0], out[1])) if a != c]
                what = ['status', 'body', 'Location', 'middleware/endpoint trace', 'exception'][diff[0]]
                ctx.mismatch('differs-' + what.split('/')[0].split(' ')[0], '%s %s: %s differs: nested %r, flat %r'
                             % (method, path, what, out[0][diff[0]], out[1][diff[0]]), dict(tree=original, request=[path, method]))
                return
    ctx.event('trees-compared')
    if nontrivial(tree):
        ctx.nt(tree, sample=len(ctx.samples) < 2)


def chain_problem(trace, expected_chain):
    """for every endpoint that ran: the middlewares entered (and still open) when it ran, against the model's merged list"""
    open_ = []
    for ev in trace:
        if ev.startswith('mw') and ev.endswith('>'):
            open_.append(int(ev[2]))
        elif ev.startswith('<mw'):
            if open_:
                open_.pop()
        elif ev.startswith('ep'):
            rid = ev[2:]
            want = expected_chain.get(rid)
            if want is not None and tuple(open_) not in want:
                return 'endpoint %s ran inside middlewares %r, the merged lists give %r' % (rid, open_, want)
    return None


def norm_body(b):
    # uncaught-exception pages embed a frame count that depends on how deep the call stack is
    import re
    return re.sub(rb'\(\d+ frames', b'(N frames', b)


def twice_trees():
    """complete family: one leaf application (a factory-argument route and a callable-render route) mounted under two mid-level
    applications of one root; every combination of 'has a render factory' for root / first / second / leaf and of rebind_render
    for the two leaf mounts and the two root mounts"""
    import itertools
    out = []
    for f_root, f_first, f_second, f_leaf, rb1, rb2, rb_a, rb_b in itertools.product([False, True], repeat=8):
        def app(fac, items, mws=()):
            return {'mode': 'redirect', 'res': [], 'mws': list(mws), 'handler': 'default', 'factory': fac, 'items': items}
        leaf = app(f_leaf, [['route', '/x', None, 'ctx', 'arg', []], ['route', '/y/', None, 'ctx', 'callable', []]], [1])
        first = app(f_first, [['app', '/i', True, rb1, leaf]], [2])
        second = app(f_second, [['again', '/i/', True, rb2, 0]])
        out.append(app(f_root, [['app', '/a', True, rb_a, first], ['app', '/b', True, rb_b, second]]))
    return out


def shards(tier, seed):
    n = 100 if tier == "quick" else 3600
    return [{'n': n, 'twice': k} for k in range(16)]


TWICE_PATHS = ['/a/i/x', '/a/i/y/', '/b/i/x', '/b/i/y/', '/b/i/y', '/b/i/nope', '/a/i//x', '/c']


def run_shard(spec, ctx):
    fam = twice_trees()
    for tree in fam[spec.get('twice', 0)::16]:
        ctx.case({'tree': tree, 'paths': TWICE_PATHS})
        try:
            body(tree, ctx, paths=TWICE_PATHS)
        except Exception as e:
            ctx.classify_exc(e, {'tree': tree, 'paths': TWICE_PATHS}, 'tree')
    ctx.hyp(strategy(), body, spec['n'], kind='tree')


def replay(case, kind, ctx):
    body(case['tree'] if isinstance(case, dict) and 'tree' in case else case, ctx)      # (always on the full request catalogue)
