"""C11 - binding is non-destructive, applications are isolated, add() is atomic.
Rule-based state machine; after every step every live application is compared with a model routing table (M3)."""
from vlib import dispatchmodel as M, urlmodel as U
from vlib.wsgi import call

INFO = {
    'level': 'exploration',
    'rule': ('histories (Hypothesis rule-based machine, <=30 steps) of: construct application (3 slash modes, with or without '
             'a resource), create unbound Route, add route / tuple / sub-application at an index, add an entry that fails '
             '(unresolved dependency, name conflict, bad pattern, bad middleware, non-castable entry) also as the k-th route of '
             'an embedded application, embed application A in B, bind one Route object into several applications, request any '
             'application. After every step: route table of every live application == model, a fixed request set is answered per '
             'the reference dispatcher on the model, unbound routes are unchanged by value and identity. Non-trivial = a failing '
             'add on an application that is requested afterwards, or one Route bound into >=2 applications, or an application '
             'embedded after being requested; distinct histories counted.'),
    'assumptions': ['an application is not embedded into itself', 'routes added to an application after it was embedded elsewhere do not appear there (documented copy semantics)'],
}

PATTERNS = ['/x', '/x/', '/x/<a>', '/<a>', '/<a>/<b?>', '/z/<p*>', '/', '/y/<q+>/']
METHODS = [None, None, ['GET'], ['POST'], ['GET', 'POST'], ['get'], ['Post', 'get']]
BEH = ['answer', 'answer', 'raise403', 'nb403', 'nbret404', 'boom']
PATHS = ['/x', '/x/', '/x/1', '/z', '/', '/x/a/b', '/y/1/2/', '/p/x', '/p/x/1', '/q/x/', '/q/', '/p']
REQM = ['GET', 'POST', 'DELETE']     # DELETE is admitted by no method-restricted route of the catalogue
PREFIXES = ['/p', '/q/', '/', '/p/r']


TRACE = []
SEEN_APPS = []
_TRACERS = {}


class Fac(object):
    """a render factory: instances of one class, configured differently per application (same module and name, other state)"""
    def __init__(self, tag):
        self.tag = tag

    def __call__(self, arg):
        from clastic import Response
        tag = self.tag

        def render(context):
            return Response('F[%s](%s):%s' % (tag, arg, context['rid']))
        return render


def kind_of(mwid):
    """'A0:K1' -> 'K1' (the middleware type); ids without a kind have a type of their own"""
    return mwid.split(':', 1)[1] if ':' in mwid else mwid


def tracer(mwid):
    """a middleware instance that records its id whenever its request function runs; its type is kind_of(mwid), so two
    applications may carry different instances of one (unique) type"""
    from clastic import Middleware
    k = kind_of(mwid)
    if k not in _TRACERS:
        _TRACERS[k] = type('C11MW_' + k.replace('.', '_'), (Middleware,), {})
    inst = _TRACERS[k]()

    def request(next, _application, _id=mwid):
        TRACE.append(_id)
        SEEN_APPS.append(_application)
        return next()
    inst.request = request
    return inst


def expected_trace(table, path, method, app_mw):
    """ids of the middlewares that run for this request: the chain of every route that is executed, in order; the
    catch-all route (application-level middlewares only) when nothing answers"""
    m = method.upper()
    path = M.seen_path(path)
    out = []
    for e in table:
        if not U.match(e.parsed, e.mode, path):
            continue
        if e.mset is not None and m not in e.mset:
            continue
        if e.parsed[1] and e.mode == U.REDIRECT and U.normalize(path, True) != path:
            return out
        out += e.chain
        if M.BEHAVIOURS[e.beh][1] or e.beh == 'answer':
            return out
    return out + ([app_mw] if app_mw else [])


class Sim(object):
    def __init__(self, ctx):
        self.ctx = ctx
        self.apps = []       # dict(app, table, mode, clash, requested, failed_add)
        self.routes = []     # dict(route, snap, rid, pattern, methods, beh, bound_in=set())
        self.next_rid = 0
        self.interesting = False

    def rid(self):
        self.next_rid += 1
        return self.next_rid

    # ---- helpers
    def snapshot(self, route):
        return {'pattern': route.pattern, 'methods': None if route.methods is None else set(route.methods),
                'mw_obj': route.middlewares, 'mw': list(route.middlewares), 'res_obj': route.resources, 'res': dict(route.resources),
                'render': route.render, 'endpoint': route.endpoint, 'slash_mode': route.slash_mode}

    def check_unbound(self):
        for r in self.routes:
            route, s = r['route'], r['snap']
            now = self.snapshot(route)
            for k in s:
                same = now[k] is s[k] if k in ('mw_obj', 'res_obj', 'render', 'endpoint') else now[k] == s[k]
                if not same:
                    self.ctx.mismatch('unbound-route-changed', 'Route %r: attribute %s changed from %r to %r after binding'
                                      % (s['pattern'], k, s[k], now[k]))

    def check_tables(self):
        for i, a in enumerate(self.apps):
            got = [r.pattern for r in a['app'].routes]
            want = [e.pattern for e in a['table']]
            if got != want:
                self.ctx.mismatch('route-table-changed', 'application #%d routes %r, model %r' % (i, got, want))

    def check_requests(self, only=None):
        for i, a in enumerate(self.apps):
            if only is not None and i not in only:
                continue
            for path in PATHS:
                for method in REQM:
                    self.request(i, path, method, count=False)

    def request(self, i, path, method, count=True):
        a = self.apps[i]
        exp = M.dispatch(a['table'], path, method)
        del TRACE[:]
        del SEEN_APPS[:]
        r = call(a['app'], path, method)
        if any(x is not a['app'] for x in SEEN_APPS):
            # the `_application` built-in is the application that is serving the request, whatever else its routes were bound into
            others = [j for j, b in enumerate(self.apps) if any(x is b['app'] for x in SEEN_APPS)]
            self.ctx.mismatch('application-identity', '%s %s on application #%d: a middleware was handed another application as `_application` (applications %r)'
                              % (method, path, i, others))
        want_trace = expected_trace(a['table'], path, method, a.get('mw'))
        if list(TRACE) != want_trace and r.exc is None:
            self.ctx.mismatch('middleware-chain-changed', '%s %s on application #%d ran middlewares %r, model %r'
                              % (method, path, i, list(TRACE), want_trace))
        self.ctx.requests += 1
        what = '%s %s on application #%d' % (method, path, i)
        if r.exc is not None:
            self.ctx.mismatch('request-raises', '%s: %r' % (what, r.exc))
            return
        if exp['kind'] == 'redirect':
            ok = r.status in (301, 302, 303, 307, 308)
        elif exp['kind'] == 'answer':
            seen = M.seen_path(path)
            ans = next((e for e in a['table'] if e.rid == exp['rid'] and U.match(e.parsed, e.mode, seen)
                        and (e.mset is None or method.upper() in e.mset)), None)
            if ans is not None and getattr(ans, 'rarg', False):
                if ans.fac is None:
                    ok = r.status == 500       # nobody interprets the render argument: the context comes back unrendered
                else:
                    ok = r.status == 200 and (method == 'HEAD' or r.body == ('F[%s](tmpl%d):%d' % (ans.fac, ans.rid, ans.rid)).encode())
                    if not ok and r.status == 200:
                        self.ctx.mismatch('rendered-by-another-application', '%s: got %r, expected the render argument of route %d to be interpreted by '
                                          'the factory of application %s' % (what, r.body[:50], ans.rid, ans.fac))
            else:
                ok = r.status == 200 and (method == 'HEAD' or r.body == ('route-%s' % exp['rid']).encode())
        else:
            ok = r.status == exp['status']
        if not ok:
            self.ctx.mismatch('behaviour-changed', '%s: got %s %r, model expects %s (route %s)'
                              % (what, r.status, r.body[:50], exp.get('status', exp['kind']), exp.get('rid')))
        if count:
            a['requested'] = True
            if a['failed_add']:
                self.interesting = True

    def entry(self, rid, pattern, methods, beh, mode, chain=(), rarg=False, fac=None):
        e = M.Entry(rid, pattern, methods, beh, mode)
        e.chain = list(chain)
        e.rarg, e.fac = rarg, fac       # render argument? interpreted by which application's factory (None: by nobody yet)
        return e

    def idx(self, i, index):
        # passed through as given: add(entry, index) has list.insert semantics (negative and past-the-end indices are legal)
        return index

    def insert(self, i, index, entries):
        t = self.apps[i]['table']
        if index is None:
            t.extend(entries)
        else:
            # "inserts the new routes contiguously at the requested index": where list.insert would put the first one
            pos = max(0, len(t) + index) if index < 0 else min(index, len(t))
            t[pos:pos] = entries

    # ---- operations
    def step(self, op):
        self.nsteps = getattr(self, 'nsteps', 0) + 1
        touched = set()
        if op[0] in ('add_route', 'add_tuple', 'add_failing', 'req') and self.apps:
            touched.add(op[1] % len(self.apps))
        if op[0] in ('embed',) and self.apps:
            touched.update([op[1] % len(self.apps), op[2] % len(self.apps)])
        if op[0] == 'embed_failing' and self.apps:
            touched.add(op[1] % len(self.apps))
        if op[0] == 'new_app':
            touched.add(len(self.apps))
        self._step(op)
        self.check_tables()
        self.check_unbound()
        # the applications this step touched are re-examined at once, all of them every few steps and at the end
        self.check_requests(only=None if self.nsteps % 6 == 0 else touched)

    def finish(self):
        self.check_tables()
        self.check_unbound()
        self.check_requests()

    def _step(self, op):
        from clastic import Application, Route, Response, Middleware
        k = op[0]
        ctx = self.ctx
        if k == 'new_app':
            _, mode, clash = op[:3]
            has_mw = int(op[3]) if len(op) > 3 else 0
            # 0: none; 1: a type of its own; 2, 3: an instance of one of two types shared between applications
            mwid = None if not has_mw else 'A%d' % len(self.apps) if has_mw == 1 else 'A%d:K%d' % (len(self.apps), has_mw)
            fac = 'A%d' % len(self.apps) if (len(op) > 4 and op[4]) else None
            app = Application(slash_mode=mode, resources={'clash': 'c'} if clash else {}, middlewares=[tracer(mwid)] if mwid else [],
                              render_factory=Fac(fac) if fac else None)
            self.apps.append({'app': app, 'table': [], 'mode': mode, 'clash': clash, 'requested': False, 'failed_add': False, 'mw': mwid, 'fac': fac})
            # mount points declared right away, while the application is still empty: embedding one of them later embeds the
            # application as it is *then*
            from clastic import SubApplication
            self.apps[-1]['mounts'] = dict((p_, SubApplication(p_, app)) for p_ in PREFIXES)
        elif k == 'new_route':
            _, pattern, methods, beh = op[:4]
            needs = bool(op[4]) if len(op) > 4 else False
            route_mw = bool(op[5]) if len(op) > 5 else False
            rid = self.rid()
            # a render *argument* (a template name): whichever application's render factory the binding rules pick interprets it
            rarg = bool(op[6]) if len(op) > 6 else False
            rarg = rarg and beh == 'answer'
            # some routes have an endpoint that requires the resource only some applications define; some carry a middleware
            if rarg:
                ns = {'rid': rid}
                exec('def ep(%s):\n    return {"rid": rid}\n' % ('clash' if needs else ''), ns)
                ep = ns['ep']
            else:
                ep = M.make_endpoint(rid, beh, names=('clash',) if needs else ())
            route = Route(pattern, ep, 'tmpl%d' % rid if rarg else None, methods=methods,
                          middlewares=[tracer('R%d' % rid)] if route_mw else [])
            self.routes.append({'route': route, 'snap': self.snapshot(route), 'rid': rid, 'pattern': pattern, 'methods': methods,
                                'beh': beh, 'bound_in': set(), 'needs': needs, 'mw': 'R%d' % rid if route_mw else None, 'rarg': rarg})
        elif not self.apps:
            return
        elif k == 'add_route':
            _, ai, ri, index = op
            if not self.routes:
                return
            i, r = ai % len(self.apps), self.routes[ri % len(self.routes)]
            index = self.idx(i, index)
            if r.get('needs') and not self.apps[i]['clash']:
                # unsatisfiable in *this* application, whatever other applications the Route is bound into
                try:
                    if index is None:
                        self.apps[i]['app'].add(r['route'])
                    else:
                        self.apps[i]['app'].add(r['route'], index)
                except Exception:
                    self.apps[i]['failed_add'] = True
                    self.apps[i]['requested'] = False
                else:
                    ctx.mismatch('failing-add-accepted', 'add() of a Route whose endpoint needs a resource this application lacks did not raise '
                                 '(the Route is also bound into %d other application(s))' % len(r['bound_in']))
                return
            if index is None:
                self.apps[i]['app'].add(r['route'])
            else:
                self.apps[i]['app'].add(r['route'], index)
            chain = ([self.apps[i]['mw']] if self.apps[i].get('mw') else []) + ([r['mw']] if r.get('mw') else [])
            self.insert(i, index, [self.entry(r['rid'], r['pattern'], r['methods'], r['beh'], self.apps[i]['mode'], chain,
                                              rarg=r.get('rarg', False), fac=self.apps[i].get('fac'))])
            r['bound_in'].add(i)
            if len(r['bound_in']) >= 2:
                self.interesting = True
        elif k == 'add_tuple':
            _, ai, pattern, beh, index = op
            i = ai % len(self.apps)
            index = self.idx(i, index)
            rid = self.rid()
            entry = (pattern, M.make_endpoint(rid, beh))
            if index is None:
                self.apps[i]['app'].add(entry)
            else:
                self.apps[i]['app'].add(entry, index)
            self.insert(i, index, [self.entry(rid, pattern, None, beh, self.apps[i]['mode'], [self.apps[i]['mw']] if self.apps[i].get('mw') else [])])
        elif k == 'add_failing':
            _, ai, kind, index = op
            i = ai % len(self.apps)
            index = self.idx(i, index)
            rid = self.rid()

            class BadMW(Middleware):
                def request(self, request):
                    return None

            class ConflictMW(Middleware):
                provides = ('request',)

                def request(self, next):
                    return next(request=1)
            ok_ep = M.make_endpoint(rid, 'answer')
            if kind == 'unresolved':
                entry = Route('/f%d' % rid, M.make_endpoint(rid, 'answer', names=('nonexistent_dep',)))
            elif kind == 'conflict':
                entry = Route('/f%d' % rid, ok_ep, middlewares=[ConflictMW()])
            elif kind == 'bad-pattern':
                entry = ('no-leading-slash', ok_ep)
            elif kind == 'bad-pattern2':
                entry = ('/a//b/<x>/<x>', ok_ep)
            elif kind == 'bad-middleware':
                entry = Route('/f%d' % rid, ok_ep, middlewares=[BadMW()])
            elif kind == 'url-vs-resource':
                if not self.apps[i]['clash']:
                    return
                entry = Route('/f/<clash>', M.make_endpoint(rid, 'answer', names=('clash',)))
            else:
                entry = 12345
            try:
                if index is None:
                    self.apps[i]['app'].add(entry)
                else:
                    self.apps[i]['app'].add(entry, index)
            except Exception:
                self.apps[i]['failed_add'] = True
                self.apps[i]['requested'] = False
            else:
                ctx.mismatch('failing-add-accepted', 'add() of a %s entry did not raise' % kind)
        elif k == 'embed':
            _, src, dst, prefix, index = op[:5]
            via = op[5] if len(op) > 5 else 'tuple'
            a, b = src % len(self.apps), dst % len(self.apps)
            if a == b:
                return
            index = self.idx(b, index)
            entry = (prefix, self.apps[a]['app'])
            if via == 'early-sub':
                entry = self.apps[a]['mounts'][prefix]
                ctx.event('embed-via-early-subapplication')
            elif via == 'fresh-sub':
                from clastic import SubApplication
                entry = SubApplication(prefix, self.apps[a]['app'])
            if self.apps[b]['clash'] and any(any(e[0] == 'b' and e[1] == 'clash' for e in t.parsed[0]) for t in self.apps[a]['table']):
                return
            if not self.apps[b]['clash'] and self.apps[a]['clash'] is False and False:
                return
            if index is None:
                self.apps[b]['app'].add(entry)
            else:
                self.apps[b]['app'].add(entry, index)
            pfx = prefix.rstrip('/')
            outer = [self.apps[b]['mw']] if self.apps[b].get('mw') else []
            self.insert(b, index, [self.entry(e.rid, pfx + e.pattern, e.methods, e.beh, self.apps[b]['mode'],
                                              outer + [m for m in e.chain if kind_of(m) not in [kind_of(o) for o in outer]],   # unique by type: kept once, the outermost instance
                                              # embedding does not re-bind renders (the default): an interpreted render argument
                                              # stays, an uninterpreted one goes to the embedding application's factory
                                              rarg=getattr(e, 'rarg', False),
                                              fac=getattr(e, 'fac', None) if getattr(e, 'fac', None) is not None else self.apps[b].get('fac'))
                                   for e in self.apps[a]['table']])
            if self.apps[a]['requested']:
                self.interesting = True
        elif k == 'embed_failing':
            _, dst, prefix, n_good, kpos, index = op
            b = dst % len(self.apps)
            if not self.apps[b]['clash']:
                return
            index = self.idx(b, index)
            routes = []
            for j in range(n_good + 1):
                rid = self.rid()
                if j == kpos % (n_good + 1):
                    routes.append(Route('/bad/<clash>', M.make_endpoint(rid, 'answer', names=('clash',))))
                else:
                    routes.append(Route('/g%d' % j, M.make_endpoint(rid, 'answer'), middlewares=[tracer('G%d' % rid)]))
            inner = Application(routes)      # fine on its own: only the embedding application defines `clash`
            try:
                if index is None:
                    self.apps[b]['app'].add((prefix, inner))
                else:
                    self.apps[b]['app'].add((prefix, inner), index)
            except Exception:
                self.apps[b]['failed_add'] = True
                self.apps[b]['requested'] = False
            else:
                ctx.mismatch('failing-add-accepted', 'embedding an application whose route #%d conflicts did not raise' % kpos)
        elif k == 'failing_ctor':
            _, mode, n_good = op
            rid = self.rid()
            try:
                Application([('/c%d' % j, M.make_endpoint(rid, 'answer')) for j in range(n_good)] +
                            [('/bad', M.make_endpoint(rid, 'answer', names=('nonexistent_dep',)))], slash_mode=mode)
            except Exception:
                pass
            else:
                ctx.mismatch('failing-add-accepted', 'constructor with an unsatisfiable route did not raise')
        elif k == 'req':
            _, ai, path, method = op
            self.request(ai % len(self.apps), path, method)


def machine():
    from hypothesis import strategies as st
    from hypothesis.stateful import RuleBasedStateMachine, rule, initialize
    index = st.one_of(st.none(), st.integers(0, 6), st.integers(-3, 8))

    class AppMachine(RuleBasedStateMachine):
        ctx = None

        def __init__(self):
            RuleBasedStateMachine.__init__(self)
            self.steps = []
            type(self).last_history = self.steps
            self.ctx.case(self.steps)
            self.sim = Sim(self.ctx)

        def do(self, op):
            self.steps.append(op)
            self.ctx.current = self.steps
            self.sim.step(op)

        @initialize(mode=st.sampled_from(list(U.MODES)), clash=st.booleans(), mw=st.sampled_from([0, 0, 1, 2, 2, 3]), fac=st.booleans())
        def first_app(self, mode, clash, mw, fac):
            self.do(['new_app', mode, clash, mw, fac])

        @rule(mode=st.sampled_from(list(U.MODES)), clash=st.booleans(), mw=st.sampled_from([0, 0, 1, 2, 2, 3]), fac=st.booleans())
        def new_app(self, mode, clash, mw, fac):
            if len(self.sim.apps) < 4:
                self.do(['new_app', mode, clash, mw, fac])

        @rule(pattern=st.sampled_from(PATTERNS), methods=st.sampled_from(METHODS), beh=st.sampled_from(BEH), needs=st.sampled_from([False, False, True]),
              mw=st.booleans(), rarg=st.sampled_from([False, False, True]))
        def new_route(self, pattern, methods, beh, needs, mw, rarg):
            if len(self.sim.routes) < 6:
                self.do(['new_route', pattern, methods, beh, needs, mw, rarg])

        @rule(ai=st.integers(0, 3), ri=st.integers(0, 5), index=index)
        def add_route(self, ai, ri, index):
            self.do(['add_route', ai, ri, index])

        @rule(ai=st.integers(0, 3), pattern=st.sampled_from(PATTERNS), beh=st.sampled_from(BEH), index=index)
        def add_tuple(self, ai, pattern, beh, index):
            self.do(['add_tuple', ai, pattern, beh, index])

        @rule(ai=st.integers(0, 3), kind=st.sampled_from(['unresolved', 'conflict', 'bad-pattern', 'bad-pattern2', 'bad-middleware',
                                                          'url-vs-resource', 'not-an-entry']), index=index)
        def add_failing(self, ai, kind, index):
            self.do(['add_failing', ai, kind, index])

        @rule(src=st.integers(0, 3), dst=st.integers(0, 3), prefix=st.sampled_from(PREFIXES), index=index,
              via=st.sampled_from(['tuple', 'early-sub', 'early-sub', 'fresh-sub']))
        def embed(self, src, dst, prefix, index, via):
            self.do(['embed', src, dst, prefix, index, via])

        @rule(dst=st.integers(0, 3), prefix=st.sampled_from(PREFIXES), n_good=st.integers(0, 3), kpos=st.integers(0, 3), index=index)
        def embed_failing(self, dst, prefix, n_good, kpos, index):
            self.do(['embed_failing', dst, prefix, n_good, kpos, index])

        @rule(mode=st.sampled_from(list(U.MODES)), n_good=st.integers(0, 3))
        def failing_ctor(self, mode, n_good):
            self.do(['failing_ctor', mode, n_good])

        @rule(ai=st.integers(0, 3), path=st.sampled_from(PATHS), method=st.sampled_from(['GET', 'POST', 'HEAD', 'DELETE']))
        def request(self, ai, path, method):
            self.do(['req', ai, path, method])

        def teardown(self):
            self.sim.finish()
            if self.sim.interesting:
                self.ctx.nt(list(self.steps), sample=len(self.ctx.samples) < 2)
            for op in self.steps:
                self.ctx.event('op-' + op[0])
    return AppMachine


def shards(tier, seed):
    q = tier == 'quick'
    return [{'n': 30 if q else 1600, 'steps': 30} for _ in range(16)]


def canonical_histories():
    """complete little family, run in every tier: one Route object (with / without a render argument, with / without a middleware
    of its own) bound into two applications (each with / without a render factory, with / without a tracer middleware), in both
    orders, then both embedded into a third - the combinations whose random occurrence the generated histories cannot guarantee"""
    import itertools
    out = []
    for f0, f1, m0, m1, rarg, rmw, order in itertools.product([False, True], [False, True], [0, 2], [0, 3], [False, True], [False, True], [0, 1]):
        h = [['new_app', 'redirect', False, m0, f0], ['new_app', 'strict', False, m1, f1], ['new_app', 'rewrite', False, 0, True],
             ['new_route', '/x', None, 'answer', False, rmw, rarg], ['new_route', '/x/', ['GET'], 'answer', False, False, rarg]]
        first, second = (0, 1) if order == 0 else (1, 0)
        h += [['add_route', first, 0, None], ['req', first, '/x', 'GET'], ['add_route', second, 0, None], ['add_route', second, 1, 0],
              ['req', second, '/x', 'GET'], ['req', first, '/x', 'GET'],
              ['embed', 0, 2, '/p', None, 'early-sub'], ['embed', 1, 2, '/q/', 0, 'tuple'], ['req', 2, '/p/x', 'GET'], ['req', 2, '/q/x', 'GET'],
              ['add_route', 2, 0, None], ['req', 2, '/x', 'GET']]
        out.append(h)
    return out


def run_shard(spec, ctx):
    for h in canonical_histories()[ctx.shard::16]:
        ctx.case(h)
        ctx.current = h
        try:
            sim = Sim(ctx)
            for op in h:
                sim.step(op)
            sim.finish()
            ctx.nt(['canonical', h], sample=False)
        except Exception as e:
            ctx.classify_exc(e, h, 'history')
    ctx.machine(machine(), spec['n'], spec['steps'], kind='history')


def replay(case, kind, ctx):
    sim = Sim(ctx)
    for op in case:
        sim.step(op)
    sim.finish()
