"""C14 - static serving never leaves its roots and serves files faithfully.
Oracle: the harness's own lexical resolver + byte comparison against the generated tree; complete fault-position x errno
product per served path (fault enumeration)."""
import errno, itertools, os, shutil, builtins, email.utils, time
from vlib.wsgi import call

INFO = {
    'level': 'fault_enumeration',
    'rule': ('a generated directory tree (nested directories, text / binary / empty files, names with dots, blanks and '
             'non-ASCII, a leading-".." name, a directory shadowing a file of a later search path, secrets beside and above '
             'the root) served from one multi-path StaticApplication and from two stacked single-path ones; request paths '
             '= every product of <=4 segments from {existing names, ".", "..", "", "...", names of the secrets and of the '
             'roots} (exhaustive), absolute-path and encoded variants, Hypothesis mutations of valid paths under several '
             'prefixes and slash modes; OS errors {ENOENT, EACCES, EIO, EISDIR} injected at the n-th filesystem call for '
             'every n (isfile answers False) for each served file; If-Modified-Since before / at / after. Non-trivial = the '
             'path contains a dot-segment, an empty segment or a non-existing name, or a fault / conditional header is '
             'present; distinct cases counted.'),
    'exhaustive_scope': 'all request paths of <=4 catalogue segments (quick) on the fixed tree; fault position x errno for each catalogue file',
    'assumptions': ['symlink-free, case-sensitive filesystem', 'faults after start_response (while streaming the body) are out of scope',
                    'os.path.isfile never raises: its fault is "answers False"'],
}

SECRET_ABOVE = b'SECRET-ABOVE-zq9-71c2'
SECRET_BESIDE = b'SECRET-BESIDE-zq9-9f0a'
FILES1 = {
    'a.txt': b'alpha text\n', 'sub/b.txt': b'bravo\n' * 40, 'sub/deep/c.bin': bytes(range(256)) * 8, 'empty.txt': b'',
    'sp ace.txt': b'space name', '\xe9t\xe9.txt': b'accents', 'noext': b'text without extension\n', 'blob.zz9': b'\x00\x01\x02\xff' * 100,
    '..x': b'leading dots file', '..d/f.txt': b'in dotdot-ish dir', 'dup.txt': b'from root1', '.hidden': b'hidden', 'sub/index.html': b'<html>x</html>',
    'shadow/inner.txt': b'root1 shadow is a directory', 'big.dat': b'0123456789abcdef' * 5000,
    # below the first component a name may begin with two dots: an ordinary file / directory name there
    # names that change under Unicode normalisation (decomposed accents, compatibility characters): served under the name they have
    'de\u0301compose\u0301.txt': b'decomposed accents', 'sub/\u212bngstrom-\u2126.txt': b'compatibility characters', '\ufb01le.txt': b'ligature',
    # empty files: with a name whose type can be guessed, and with names where the (absent) first bytes would decide (round 14)
    'empty.txt': b'', 'EMPTY': b'', 'sub/.keep': b'', 'sub/empty.zz9': b'',
    'sub/..x': b'dotdot-ish name one level down', 'sub/..d/f.txt': b'inside a dotdot-ish directory one level down', 'sub/deep/..x': b'two levels down',
}
FILES2 = {'shadow': b'root2 shadow is a file', 'dup.txt': b'from root2', 'only2.txt': b'only in second', 'sub/b2.txt': b'b2',
          # files whose type cannot be guessed from the name (their first bytes are read to decide), present in both directories
          'noext': b'root2 text without extension\n', 'blob.zz9': b'\x00\x01root2 blob\xff' * 50}


def mk_tree(base):
    if os.path.isdir(base):
        shutil.rmtree(base)
    for root, files in (('root1', FILES1), ('root2', FILES2)):
        for rel, data in files.items():
            p = os.path.join(base, root, rel)
            os.makedirs(os.path.dirname(p), exist_ok=True)
            with open(p, 'wb') as f:
                f.write(data)
    with open(os.path.join(base, 'secret_above.txt'), 'wb') as f:
        f.write(SECRET_ABOVE)
    with open(os.path.join(base, 'root1_secret.txt'), 'wb') as f:
        f.write(SECRET_BESIDE)
    os.makedirs(os.path.join(base, 'root1', 'emptydir'), exist_ok=True)
    # modification times in the past with every kind of sub-second fraction (conditional requests round them)
    old = int(time.time()) - 86400 * 3
    fracs = [0.0, 0.25, 0.5, 0.7, 0.999, 0.499]
    i = 0
    for dp, dn, fn in sorted(os.walk(base)):
        for n in sorted(fn):
            t = old + 100 * i + fracs[i % len(fracs)]
            os.utime(os.path.join(dp, n), (t, t))
            i += 1
    return os.path.join(base, 'root1'), os.path.join(base, 'root2')


def resolve(segs):
    """lexical resolution of request segments: -> (relative path parts, escaped?)"""
    parts = []
    escaped = False
    for s in segs:
        if s in ('', '.'):
            continue
        if s == '..':
            if parts:
                parts.pop()
            else:
                escaped = True
        else:
            parts.append(s)
    return parts, escaped


def model_file(rel_parts, roots_files):
    """bytes of the file a faithful server may serve for this relative path: first search path that has it"""
    rel = '/'.join(rel_parts)
    for files in roots_files:
        if rel in files:
            return files[rel]
    return None


class Setup(object):
    def __init__(self, base, prefix='/s', mode='redirect'):
        from clastic import Application, StaticApplication
        self.base = base
        self.root1, self.root2 = os.path.join(base, 'root1'), os.path.join(base, 'root2')
        pm = prefix.rstrip('/')
        self.multi = Application([(pm + '/m', StaticApplication([self.root1, self.root2]))], slash_mode=mode)
        self.stacked = Application([(pm + '/k', StaticApplication(self.root1)), (pm + '/k', StaticApplication([self.root2]))], slash_mode=mode)
        self.pm = pm
        # the same two directories listed the other way round (the order the caller gives is the search order, whatever
        # the directories are called), and once more with a duplicate and a trailing separator
        self.reversed = Application([(pm + '/r', StaticApplication([self.root2, self.root1]))], slash_mode=mode)
        self.reversed2 = Application([(pm + '/r', StaticApplication([self.root2 + os.sep, self.root1, self.root2]))], slash_mode=mode)
        # a prefix composed by nesting: the static application inside an application inside an application (and one level more)
        self.nested = Application([('/v1', Application([(pm + '/n', StaticApplication(self.root1))], slash_mode=mode))], slash_mode=mode)
        self.nested3 = Application([('/v2', Application([('/mid/', Application([(pm + '/n', StaticApplication(self.root1))], slash_mode=mode))],
                                                        slash_mode=mode))], slash_mode=mode)


def check_reversed(ctx, setup):
    """every file of either directory through the application whose search order is [root2, root1]"""
    for rel in sorted(set(FILES1) | set(FILES2)):
        want = model_file(rel.split('/'), [FILES2, FILES1])
        for app in (setup.reversed, setup.reversed2):
            path = setup.pm + '/r/' + rel
            r = call(app, path)
            ctx.requests += 1
            case = {'segs': rel.split('/'), 'which': 'reversed'}
            if r.exc is not None:
                ctx.mismatch('static-raises', 'GET %r (search order root2, root1): %r' % (path, r.exc), case)
                return
            # a name that is a directory in the first search path and a file in the second: refused or passed on, never
            # served from the first; otherwise the first directory that has the file wins
            if r.status == 200 and r.body != want:
                ctx.mismatch('wrong-bytes', 'GET %r with search order [root2, root1]: served %r..., the first search directory that has it holds %r...'
                             % (path, r.body[:30], (want or b'')[:30]), case)
                return
            if r.status != 200 and rel in FILES2 and not any(k.startswith(rel + '/') for k in FILES1):
                ctx.mismatch('file-not-served', 'GET %r with search order [root2, root1]: regular file of the first search directory answered %s' % (path, r.status), case)
                return
    ctx.event('reversed-search-order-checked')


def check_nested(ctx, setup):
    """every file of root1 at its relative path under a prefix composed by nesting applications - and nowhere else under it"""
    for app, pfx, which in ((setup.nested, '/v1' + setup.pm + '/n', 'nested'), (setup.nested3, '/v2/mid' + setup.pm + '/n', 'nested3')):
        for rel in sorted(FILES1):
            if must_serve(rel.split('/')) is None:
                continue        # (a first segment that starts with two dots is refused: not a path the statement requires to be served)
            case = {'segs': rel.split('/'), 'which': which}
            r = call(app, pfx + '/' + rel)
            ctx.requests += 1
            if r.exc is not None:
                ctx.mismatch('static-raises', 'GET %r (nested mount): %r' % (pfx + '/' + rel, r.exc), case)
                return
            if r.status != 200 or r.body != FILES1[rel]:
                ctx.mismatch('file-not-served', 'GET %r (static application mounted by nesting applications): %s, %d bytes; the file has %d'
                             % (pfx + '/' + rel, r.status, len(r.body), len(FILES1[rel])), case)
                return
            # the same file under a shortened prefix (one of the nesting levels dropped) is not a resource of this application
            for short in (pfx.rsplit(setup.pm + '/n', 1)[0], '/' + pfx.split('/', 2)[2] if pfx.count('/') > 1 else pfx):
                if short == pfx or not short:
                    continue
                r2 = call(app, short + '/' + rel)
                ctx.requests += 1
                if r2.exc is None and r2.status == 200 and r2.body == FILES1[rel] and FILES1[rel]:
                    ctx.mismatch('served-outside-its-prefix', 'GET %r answered with the file that belongs at %r' % (short + '/' + rel, pfx + '/' + rel), case)
                    return
    ctx.event('nested-mounts-checked')


def check_response(ctx, r, segs, what, rc, fault=False, method='GET'):
    if r.exc is not None:
        ctx.mismatch('static-raises', '%s: %r' % (what, r.exc), rc)
        return None
    if r.status not in (200, 304, 403, 404):
        if r.status in (301, 302, 303, 307, 308) and not fault:
            return 'redirect'
        ctx.mismatch('static-status-%s' % r.status, '%s: status %s %r' % (what, r.status, r.body[:100]), rc)
        return None
    if SECRET_ABOVE in r.body or SECRET_BESIDE in r.body:
        ctx.mismatch('secret-disclosed', '%s: a file outside the search directories was disclosed' % what, rc)
        return None
    parts, escaped = resolve(segs)
    if r.status == 200:
        want = model_file(parts, [FILES1, FILES2])
        alts = [f['/'.join(parts)] for f in (FILES1, FILES2) if '/'.join(parts) in f]
        if escaped:
            ctx.mismatch('escape-served', '%s: a path that escapes the root was served (200)' % what, rc)
            return None
        if method == 'HEAD':
            if want is None:
                ctx.mismatch('wrong-bytes', '%s: 200 for a path that names no file of the model' % what, rc)
            return r.status
        if want is None or (r.body != want and not (fault and r.body in alts)):
            ctx.mismatch('wrong-bytes', '%s: 200 with %d bytes %r..., model file %s' % (what, len(r.body), r.body[:40], None if want is None else len(want)), rc)
            return None
        if method != 'HEAD':
            cl = r.header('Content-Length')
            if cl is None or int(cl) != len(r.body):
                ctx.mismatch('static-content-length', '%s: Content-Length %r for %d bytes' % (what, cl, len(r.body)), rc)
                return None
        ctype = (r.header('Content-Type') or '').split(';')[0].strip()
        import mimetypes
        guess = mimetypes.guess_type(parts[-1])[0] if parts else None
        if guess is None and method != 'HEAD':
            # unknown extension: sniffed as text or binary (default types)
            sample = r.body[:1024]
            binary = bool(sample) and any(b < 32 and b not in (7, 8, 9, 10, 12, 13, 27) for b in sample)
            guess = 'application/octet-stream' if binary else 'text/plain'
        if guess is not None and ctype != guess and not fault:
            ctx.mismatch('static-content-type', '%s: Content-Type %r, expected the guessed type %r' % (what, ctype, guess), rc)
            return None
        if not r.header('Last-Modified') or not (r.header('Content-Type') or '').strip():
            ctx.mismatch('static-headers', '%s: Last-Modified %r Content-Type %r' % (what, r.header('Last-Modified'), r.header('Content-Type')), rc)
            return None
    return r.status


def must_serve(segs):
    """clean relative path naming a regular file: must be a 200"""
    if not segs or any(s in ('', '.', '..') for s in segs) or segs[0].startswith('..'):
        return None
    return model_file(segs, [FILES1, FILES2])


def request_path(setup, which, segs):
    return setup.pm + ('/m/' if which == 'multi' else '/k/') + '/'.join(segs)


def one(ctx, setup, which, segs, rc, headers=None, method='GET'):
    app = setup.multi if which == 'multi' else setup.stacked
    path = request_path(setup, which, segs)
    r = call(app, path, method, headers=headers)
    ctx.requests += 1
    what = '%s %r (%s)' % (method, path, which)
    st = check_response(ctx, r, segs, what, rc, method=method)
    want = must_serve(segs)
    if want is not None and st not in (200, None) and not headers:
        ctx.mismatch('file-not-served', '%s: regular file inside the root answered %s' % (what, st), rc)
    return r, st


SEGS = ['a.txt', 'sub', 'b.txt', 'deep', 'c.bin', '.', '..', '', '...', '..x', '..d', 'f.txt', 'shadow', 'dup.txt', 'noext',
        'root1', 'root2', 'secret_above.txt', 'root1_secret.txt', 'only2.txt', 'sp ace.txt']


def run_enum(spec, ctx):
    base = os.path.join(os.environ.get('VERIF_RUNDIR', '/var/tmp'), 'c14-%d' % ctx.shard)
    mk_tree(base)
    setup = Setup(base)
    ctx.exhaustive = True
    L = spec['L']
    try:
        try:
            check_reversed(ctx, setup)
            check_nested(ctx, setup)
        except Exception as e:
            ctx.classify_exc(e, {'segs': [], 'which': 'reversed'}, 'path')
        for first in spec['firsts']:
            for n in range(0, L):
                for rest in itertools.product(SEGS, repeat=n):
                    segs = [first] + list(rest)
                    for which in ('multi', 'stacked'):
                        case = {'segs': segs, 'which': which}
                        ctx.evaluations += 1
                        try:
                            one(ctx, setup, which, segs, case)
                        except Exception as e:
                            ctx.classify_exc(e, case, 'path')
                            if len(ctx.violations) > 40:
                                return
                    if any(s in ('', '.', '..', '...') for s in segs) or must_serve(segs) is None:
                        ctx.nontrivial_disjoint += 1
                        if len(ctx.samples) < 2 and len(segs) == 3 and '..' in segs:
                            ctx.samples.append({'segs': segs})
    finally:
        shutil.rmtree(base, ignore_errors=True)
        _dedupe(ctx)


def _dedupe(ctx):
    import json
    best = {}
    for v in ctx.violations:
        k = v['sig']
        if k not in best or len(json.dumps(v['case'], default=repr)) < len(json.dumps(best[k]['case'], default=repr)):
            best[k] = v
    ctx.violations = list(best.values())


# ------------------------------------------------------------------ faults

class Faults(object):
    """counts filesystem calls made by clastic.static and fails the n-th one"""

    def __init__(self):
        import clastic.static as cs
        self.cs = cs
        self.count = 0
        self.fail_at = None
        self.err = errno.EIO
        self.log = []
        self.paths = []

    def tick(self, name, path=None):
        self.count += 1
        self.log.append(name)
        self.paths.append(path)
        return self.fail_at is not None and self.count == self.fail_at

    def __enter__(self):
        """patches, for the duration of one request, every way the static code can reach the filesystem: os.path.isfile /
        exists / getmtime / getsize, os.stat / os.fstat, the module-level aliases of those that clastic.static holds
        (whatever they are called), and open() as seen from clastic.static.  Calls made from inside another wrapped
        call are not counted again."""
        cs = self.cs
        me = self
        me.depth = 0
        self.undo = []

        def wrap(orig, name, on_fault):
            def w(*a, **kw):
                if me.depth:
                    return orig(*a, **kw)
                hit = me.tick(name, a[0] if a else None)
                if hit:
                    return on_fault(a[0] if a else None)
                me.depth += 1
                try:
                    return orig(*a, **kw)
                finally:
                    me.depth -= 1
            w._zq_orig = orig
            return w

        def raiser(p):
            raise OSError(me.err, os.strerror(me.err), p)
        targets = [(os.path, 'isfile', lambda p: False), (os.path, 'exists', lambda p: False), (os.path, 'getmtime', raiser),
                   (os.path, 'getsize', raiser), (os, 'stat', raiser), (os, 'fstat', raiser)]
        originals = {}
        for mod, name, on_fault in targets:
            orig = getattr(mod, name)
            w = wrap(orig, name, on_fault)
            originals[orig] = w
            setattr(mod, name, w)
            self.undo.append((mod, name, orig))
        for k, v in list(cs.__dict__.items()):
            try:
                if v in originals:
                    setattr(cs, k, originals[v])
                    self.undo.append((cs, k, v))
            except TypeError:
                pass

        class FObj(object):
            def __init__(s, f):
                s.f = f

            def read(s, *a):
                if not me.streaming and not me.depth and me.tick('read', getattr(s.f, 'name', None)):
                    raise OSError(me.err, os.strerror(me.err))
                return s.f.read(*a)

            def seek(s, *a):
                if not me.streaming and not me.depth and me.tick('seek', getattr(s.f, 'name', None)):
                    raise OSError(me.err, os.strerror(me.err))
                return s.f.seek(*a)

            def tell(s):
                if not me.streaming and not me.depth and me.tick('tell', getattr(s.f, 'name', None)):
                    raise OSError(me.err, os.strerror(me.err))
                return s.f.tell()

            def __iter__(s):
                return iter(s.f)

            def __getattr__(s, k):
                return getattr(s.f, k)

        def fopen(p, *a, **kw):
            if not me.depth and me.tick('open', p):
                raise OSError(me.err, os.strerror(me.err), p)
            me.depth += 1
            try:
                return FObj(builtins.open(p, *a, **kw))
            finally:
                me.depth -= 1
        self.had_open = cs.__dict__.get('open')
        cs.open = fopen
        self.streaming = False
        return self

    def __exit__(self, *a):
        cs = self.cs
        for mod, name, orig in reversed(self.undo):
            setattr(mod, name, orig)
        if self.had_open is None:
            del cs.open
        else:
            cs.open = self.had_open


def call_with_faults(app, path, faults, headers=None):
    """reads performed while the body is streamed are not fault points (they happen after start_response)"""
    from vlib.wsgi import make_environ, Resp
    env = make_environ(path, 'GET', headers=headers)
    r = Resp()
    r.sr_calls, r.exc, r.closed, r.chunks, r.status, r.status_line, r.headers, r.body = [], None, None, [], None, None, [], b''

    def sr(status, headers, exc_info=None):
        r.status_line, r.headers, r.status = status, list(headers), int(status[:3])
        faults.streaming = True
    try:
        it = app(env, sr)
        faults.streaming = True
        try:
            for c in it:
                r.chunks.append(c)
        finally:
            if hasattr(it, 'close'):
                it.close()
    except Exception as e:
        r.exc = e
    r.body = b''.join(r.chunks)
    return r


FAULT_FILES = [['a.txt'], ['noext'], ['blob.zz9'], ['dup.txt'], ['sub', 'b.txt'], ['only2.txt'], ['shadow'], ['empty.txt'], ['big.dat']]
ERRNOS = [errno.ENOENT, errno.EACCES, errno.EIO, errno.EISDIR]


def run_faults(spec, ctx):
    base = os.path.join(os.environ.get('VERIF_RUNDIR', '/var/tmp'), 'c14f-%d' % ctx.shard)
    mk_tree(base)
    setup = Setup(base)
    ctx.exhaustive = True
    try:
        for segs in FAULT_FILES:
            for which in ('multi', 'stacked'):
                app = setup.multi if which == 'multi' else setup.stacked
                path = request_path(setup, which, segs)
                plain = call(app, path)
                lm = plain.header('Last-Modified')
                for hdrs in (None, {'If-Modified-Since': lm}, {'If-Modified-Since': 'Mon, 01 Jan 1990 00:00:00 GMT'}):
                    with Faults() as f:
                        r0 = call_with_faults(app, path, f, hdrs)
                        ncalls = f.count
                        calls = list(f.log)
                        cpaths = list(f.paths)
                    if ncalls == 0:
                        ctx.note('no filesystem call observed while serving %s: fault injection found nothing to fail (refactor?)' % path)
                    if r0.exc is not None or r0.status not in (200, 304):
                        try:
                            ctx.mismatch('file-not-served', 'GET %r without any fault answered %s %r' % (path, r0.status, r0.exc),
                                         {'segs': segs, 'which': which})
                        except Exception as e:
                            ctx.classify_exc(e, {'segs': segs, 'which': which}, 'path')
                        continue
                    for n in range(1, ncalls + 1):
                        for err in ERRNOS:
                            case = {'segs': segs, 'which': which, 'fault_at': n, 'call': calls[n - 1], 'errno': errno.errorcode[err],
                                    'ims': None if hdrs is None else hdrs['If-Modified-Since'] == lm,
                                    'first_app': bool(cpaths[n - 1] and (os.sep + 'root1' + os.sep) in str(cpaths[n - 1]))}
                            ctx.case(case)
                            try:
                                fault_case(ctx, setup, app, path, segs, n, err, hdrs, case)
                                ctx.nt(case, sample=len(ctx.samples) < 3 and n > 2)
                                ctx.event('fault-' + calls[n - 1])
                            except Exception as e:
                                ctx.classify_exc(e, case, 'fault')
        run_ims(ctx, setup)
        run_special(ctx, setup)
    finally:
        shutil.rmtree(base, ignore_errors=True)
        _dedupe(ctx)


def fault_case(ctx, setup, app, path, segs, n, err, hdrs, rc):
    with Faults() as f:
        f.fail_at, f.err = n, err
        r = call_with_faults(app, path, f, hdrs)
    ctx.requests += 1
    what = 'GET %r with %s at filesystem call #%d (%s)' % (path, errno.errorcode[err], n, rc['call'])
    if r.exc is not None:
        ctx.mismatch('fault-raises:' + rc['call'], '%s: %r' % (what, r.exc), rc)
        return
    rel = '/'.join(segs)
    if rc.get('which') == 'stacked' and rc.get('first_app') and rel in FILES2 and rc.get('ims') is None:
        # the failure hit the first of two overlapping applications: its 403/404 must be non-breaking, so the second one answers
        if r.status != 200 or r.body != FILES2[rel]:
            ctx.mismatch('fault-breaks-fallthrough:' + rc['call'], '%s: the second application was not tried (status %s, %d bytes)'
                         % (what, r.status, len(r.body)), rc)
        return
    if r.status not in (403, 404):
        if r.status in (200, 304):
            st = check_response(ctx, r, segs, what, rc, fault=True)
            return
        ctx.mismatch('fault-status-%s:%s' % (r.status, rc['call']), '%s: status %s %r' % (what, r.status, r.body[:120]), rc)


def run_ims(ctx, setup):
    for segs in FAULT_FILES:
        path = request_path(setup, 'multi', segs)
        r = call(setup.multi, path)
        lm = r.header('Last-Modified')
        t = email.utils.parsedate_to_datetime(lm).timestamp()
        for label, when, want in (('at', t, 304), ('after', t + 3600, 304), ('before', t - 3600, 200), ('long-before', 0, 200)):
            case = {'segs': segs, 'ims': label}
            ctx.case(case)
            h = {'If-Modified-Since': lm if label == 'at' else email.utils.formatdate(when, usegmt=True)}
            r2 = call(setup.multi, path, headers=h)
            ctx.requests += 1
            try:
                if r2.exc is not None or r2.status != want:
                    ctx.mismatch('conditional-%s' % label, 'GET %r If-Modified-Since %s (%s the file time): status %s %r, expected %s'
                                 % (path, h['If-Modified-Since'], label, r2.status, r2.exc, want), case)
                elif want == 304 and r2.body:
                    ctx.mismatch('304-with-body', 'GET %r: 304 carries %d body bytes' % (path, len(r2.body)), case)
                elif want == 200:
                    check_response(ctx, r2, segs, 'conditional GET %r' % path, case)
                ctx.nt(case, sample=False)
            except Exception as e:
                ctx.classify_exc(e, case, 'ims')
        for method in ('HEAD',):
            r3 = call(setup.multi, path, method)
            ctx.requests += 1
            if r3.exc is not None or r3.status != 200 or r3.body:
                try:
                    ctx.mismatch('static-head', 'HEAD %r: %s %r body %d' % (path, r3.status, r3.exc, len(r3.body)), {'segs': segs, 'method': 'HEAD'})
                except Exception as e:
                    ctx.classify_exc(e, {'segs': segs, 'method': 'HEAD'}, 'ims')


def run_special(ctx, setup):
    """absolute-path, encoded and odd variants that the segment product cannot reach"""
    base = setup.base
    ab = [p for p in base.split('/') if p]
    specials = []
    for secret in ('secret_above.txt', 'root1_secret.txt', 'root1/a.txt', 'root2/only2.txt'):
        target = ab + secret.split('/')
        specials += [[''] + target, ['', ''] + target, ['sub', '..', '..', '..'] + target, ['..'] * 12 + target, ['a.txt', ''] + target,
                     ['.', ''] + target, [''] * 3 + target]
    specials += [['..', 'root1_secret.txt'], ['..', 'root1', 'a.txt'], ['sub', '..', '..', 'secret_above.txt'], ['%2e%2e', 'secret_above.txt'],
                 ['..%2f', 'secret_above.txt'], ['..\\', 'secret_above.txt'], ['sub', '%2e%2e', 'a.txt'], ['a.txt', '..', 'a.txt'],
                 ['a.txt', ''], ['sub', ''], ['emptydir'], ['sub'], [], ['\xe9t\xe9.txt'], ['sp ace.txt'], ['.hidden'], ['sub', 'index.html'],
                 ['shadow', 'inner.txt'], ['..d', 'f.txt'], ['..x'], ['~'], ['a.txt\x00.png'], ['con'], ['a.txt.'], ['A.TXT'], ['sub', 'deep', 'c.bin'],
                 ['sub', '.', 'b.txt'], ['.', 'a.txt'], ['sub', '..', 'a.txt'], ['sub', 'deep', '..', '..', 'a.txt'], ['big.dat']]
    for segs in specials:
        for which in ('multi', 'stacked'):
            case = {'segs': segs, 'which': which}
            ctx.case(case)
            try:
                one(ctx, setup, which, segs, case)
                ctx.nt(case, sample=False)
            except Exception as e:
                ctx.classify_exc(e, case, 'path')


# ------------------------------------------------------------------ random part

def strategy():
    from hypothesis import strategies as st
    valid = [k.split('/') for k in list(FILES1) + list(FILES2)]
    seg = st.one_of(st.sampled_from(SEGS), st.sampled_from(['%2e%2e', '..;', '.. ', ' ..', '....', 'é', 'a.txt ', 'A.txt', 'sub\\b.txt', '*', '?', 'nul\x00']),
                    st.text(alphabet='ab./ \\%', min_size=1, max_size=4).map(lambda s: s.replace('/', '')).filter(bool))
    mutation = st.tuples(st.sampled_from(['none', 'insert', 'replace', 'delete', 'dup', 'append', 'prepend-empty']), st.integers(0, 6), seg)
    return st.tuples(st.sampled_from(valid), st.lists(mutation, max_size=3), st.sampled_from(['multi', 'stacked']),
                     st.sampled_from(['/s', '', '/a/b/', '/x']), st.sampled_from(['redirect', 'rewrite', 'strict']), st.sampled_from(['GET', 'GET', 'HEAD']))


_setups = {}


def random_body(case, ctx):
    valid, muts, which, prefix, mode, method = case
    segs = list(valid)
    for kind, pos, seg in muts:
        i = pos % (len(segs) + 1)
        if kind == 'insert':
            segs.insert(i, seg)
        elif kind == 'replace' and segs:
            segs[i % len(segs)] = seg
        elif kind == 'delete' and segs:
            segs.pop(i % len(segs))
        elif kind == 'dup' and segs:
            segs.insert(i, segs[i % len(segs)])
        elif kind == 'append':
            segs.append(seg)
        elif kind == 'prepend-empty':
            segs.insert(0, '')
    rc = [list(valid), [list(m) for m in muts], which, prefix, mode, method]
    ctx.current = rc
    base = os.path.join(os.environ.get('VERIF_RUNDIR', '/var/tmp'), 'c14r-%d' % ctx.shard)
    key = (prefix, mode)
    if 'tree' not in _setups:
        mk_tree(base)
        _setups['tree'] = base
    if key not in _setups:
        _setups[key] = Setup(base, prefix, mode)
    setup = _setups[key]
    try:
        '/'.join(segs).encode('utf8')
    except UnicodeEncodeError:
        return
    app = setup.multi if which == 'multi' else setup.stacked
    path = request_path(setup, which, segs)
    r = call(app, path, method)
    ctx.requests += 1
    what = '%s %r (%s, prefix %r, %s)' % (method, path, which, prefix, mode)
    st_ = check_response(ctx, r, segs, what, rc, method=method)
    want = must_serve(segs)
    if want is not None and st_ not in (200, None):
        ctx.mismatch('file-not-served', '%s: regular file inside the root answered %s' % (what, st_), rc)
    if method == 'HEAD' and r.body:
        ctx.mismatch('static-head', '%s: HEAD body %d bytes' % (what, len(r.body)), rc)
    ctx.event('mode-' + mode)
    ctx.nt(rc, sample=len(ctx.samples) < 2)


def shards(tier, seed):
    L = 4 if tier == 'quick' else 5
    firsts = [SEGS[i::12] for i in range(12)]
    out = [{'part': 'enum', 'firsts': f, 'L': L} for f in firsts]
    out.append({'part': 'faults'})
    n = 400 if tier == 'quick' else 15000
    out += [{'part': 'random', 'n': n} for _ in range(3)]
    return out


def run_shard(spec, ctx):
    if spec['part'] == 'enum':
        run_enum(spec, ctx)
    elif spec['part'] == 'faults':
        run_faults(spec, ctx)
    else:
        try:
            ctx.hyp(strategy(), random_body, spec['n'], kind='random')
        finally:
            if 'tree' in _setups:
                shutil.rmtree(_setups['tree'], ignore_errors=True)


def replay(case, kind, ctx):
    base = os.path.join(os.environ.get('VERIF_RUNDIR', '/var/tmp'), 'c14p-%d' % os.getpid())
    if isinstance(case, list):
        try:
            random_body(case, ctx)
        finally:
            if 'tree' in _setups:
                shutil.rmtree(_setups['tree'], ignore_errors=True)
        return
    mk_tree(base)
    try:
        setup = Setup(base)
        if 'fault_at' in case:
            app = setup.multi if case['which'] == 'multi' else setup.stacked
            path = request_path(setup, case['which'], case['segs'])
            hdrs = None
            if case.get('ims') is not None:
                lm = call(app, path).header('Last-Modified')
                hdrs = {'If-Modified-Since': lm if case['ims'] else 'Mon, 01 Jan 1990 00:00:00 GMT'}
            fault_case(ctx, setup, app, path, case['segs'], case['fault_at'], getattr(errno, case['errno']), hdrs, case)
        elif 'ims' in case or case.get('method') == 'HEAD':
            run_ims(ctx, setup)
        elif case.get('which') in ('reversed', 'nested', 'nested3'):
            check_reversed(ctx, setup)
            check_nested(ctx, setup)
        else:
            one(ctx, setup, case.get('which', 'multi'), case['segs'], case)
    finally:
        shutil.rmtree(base, ignore_errors=True)
