"""C08 - every request gets a response; uncaught failures become the handler's 500.
Full (behaviour x position) product on fixed stacks (fault enumeration) + Hypothesis-varied stacks and histories."""
import itertools
from vlib.wsgi import call

INFO = {
    'level': 'fault_enumeration',
    'rule': ('a behaviour (raise one of 18 non-HTTP exceptions incl. non-ASCII / 300 kB / unprintable messages; raise or '
             'return every exported HTTPException class, breaking and non-breaking; return Response / str / None / number '
             '/ dict / list / bytes / object) is placed at one position of a middleware stack (before or after next() in '
             'the request / endpoint / render function of each middleware, the endpoint, the render function) under one '
             'of 5 error handlers; the complete behaviour x position x handler product is run on 2 fixed stacks '
             '(exhaustive for that sub-space), and Hypothesis varies stack shape, placement, Accept, method and builds '
             'histories of up to 8 requests. After every request a fixed probe request must be answered exactly as '
             'before. Non-trivial = the failing position is not the endpoint, or the handler is not the default, or the '
             'message is non-ASCII/huge/unprintable; distinct (stack, position, behaviour, handler) counted.'),
    'exhaustive_scope': 'behaviour x position x handler on the fixed stacks (2 in the quick tier, 10 in the thorough tier)',
    'assumptions': ['BaseExceptions, failures while iterating a streamed body and render_error returning a non-response are outside the listed behaviours',
                    'under the re-raising handler a non-Response result escapes as the framework\'s own TypeError'],
}

PHASES = ('request', 'endpoint', 'render')
HANDLERS = ['default', 'debug', 'reraise', 'broken', 'other', 'broken-late', 'broken-http']
FIXED = [
    {'mws': [['request', 'endpoint', 'render'], ['request', 'endpoint', 'render']], 'levels': ['app', 'route'], 'render': True},
    {'mws': [['request']], 'levels': ['app'], 'render': False},
]


class BadStr(Exception):
    def __str__(self):
        raise RuntimeError('no str')


class BadRepr(Exception):
    def __repr__(self):
        raise RuntimeError('no repr')
    __str__ = __repr__


class Weird(Exception):
    code = 'abc'


def exc_catalogue():
    return [
        ('ValueError-nonascii', lambda: ValueError('é☃ <b>')), ('KeyError', lambda: KeyError('k')),
        ('RuntimeError-huge', lambda: RuntimeError('x' * 300000)), ('BadStr', lambda: BadStr()), ('BadRepr', lambda: BadRepr()),
        ('Weird-code-attr', lambda: Weird('w')), ('UnicodeDecodeError', lambda: UnicodeDecodeError('utf8', b'\xff', 0, 1, 'bad')),
        ('StopIteration', lambda: StopIteration()), ('ZeroDivisionError', lambda: ZeroDivisionError()),
        ('OSError', lambda: OSError(5, 'io')), ('AssertionError', lambda: AssertionError()), ('RecursionError', lambda: RecursionError('deep')),
        ('MemoryError', lambda: MemoryError()), ('NotImplementedError', lambda: NotImplementedError()), ('TypeError', lambda: TypeError('t')),
        ('SystemError', lambda: SystemError('s')), ('ExceptionGroup', lambda: ExceptionGroup('g', [ValueError(1)])),
        ('LookupError-bytes', lambda: LookupError(b'\xff\xfe')),
        ('ValueError-braces', lambda: ValueError('{x} {0} {} {')), ('KeyError-dictkey', lambda: KeyError('{"a": [1]}')),
        ('RuntimeError-percent', lambda: RuntimeError('%s %d %(x)s %')), ('ValueError-markup', lambda: ValueError('</p><script>{code}</script>')),
        ('ValueError-template', lambda: ValueError('{#x}{/x}{@iterate}{~lb}')), ('ValueError-empty', lambda: ValueError('')),
        ('ValueError-nul', lambda: ValueError('a\x00b\x1b[0m')),
    ]


def behaviours():
    """-> list of (beh_id, kind, factory, expected)  expected: int status | 'uncaught' | 'value' | 200"""
    from clastic import errors, Response
    out = []
    for name, f in exc_catalogue():
        out.append(('raise:' + name, 'raise', f, 'uncaught'))
    for cn in errors.__all__:
        cls = getattr(errors, cn)
        for brk in (True, False):
            for kind in ('raise', 'return'):
                out.append(('%s:%s:%s' % (kind, cn, 'brk' if brk else 'nonbrk'), kind,
                            (lambda cls=cls, brk=brk: cls(is_breaking=brk)), cls.code))
    for tag, detail in [('braces', '{x} {0} {'), ('percent', '%s %(y)s'), ('markup', '<p>{code}</p>'), ('nonascii', 'é☃')]:
        for kind in ('raise', 'return'):
            out.append(('%s:Forbidden-detail-%s' % (kind, tag), kind,
                        (lambda detail=detail: errors.Forbidden(detail, message='m{0}%s', error_type='http://e/{t}')), 403))
            out.append(('%s:ISE-detail-%s' % (kind, tag), kind,
                        (lambda detail=detail: errors.InternalServerError(detail, is_breaking=False)), 500))
    out.append(('return:Response', 'return', lambda: Response('acted'), 200))
    for name, v in [('str', 'text'), ('None', None), ('int', 3), ('float', 2.5), ('dict', {'a': 1}), ('list', []),
                    ('bytes', b'bytes'), ('object', object()), ('emptystr', '')]:
        out.append(('return:' + name, 'return', (lambda v=v: v), 'value'))
    # appended last (round 14): messages Python allows but UTF-8 does not (unpaired surrogates - defect D20, repaired), and huge
    # messages of multi-byte characters in every byte alignment (whatever shortens them must not cut a character in two)
    for name, msg in [('surrogate', 'party \ud83d'), ('surrogate-only', '\udc00'), ('surrogate-markup', '<b>\ud800</b>{x}')]:
        out.append(('raise:ValueError-' + name, 'raise', (lambda msg=msg: ValueError(msg)), 'uncaught'))
    for kind in ('raise', 'return'):
        out.append(('%s:Forbidden-detail-surrogate' % kind, kind, (lambda: errors.Forbidden('no \ud83d entry', is_breaking=True)), 403))
    for pad in range(4):
        for ch, cname in (('\u20ac', 'euro'), ('\u6f22', 'cjk'), ('\xe9', 'latin'), ('\U0001f600', 'emoji'), ('\U0001f600\u20ac\xe9', 'mixed')):
            out.append(('raise:%s-huge-%s-pad%d' % (('RuntimeError', 'ValueError', 'KeyError', 'ZeroDivisionError')[pad], cname, pad), 'raise',
                        (lambda pad=pad, ch=ch, cls=(RuntimeError, ValueError, KeyError, ZeroDivisionError)[pad]: cls('x' * pad + ch * 9000)), 'uncaught'))
    return out


BEH = None


def beh_table():
    global BEH
    if BEH is None:
        BEH = behaviours()
    return BEH


def positions(shape):
    out = []
    for k, phases in enumerate(shape['mws']):
        for ph in phases:
            if ph == 'render' and not shape['render']:
                continue
            out.append([k, ph, 'before'])
            out.append([k, ph, 'after'])
    out.append(['ep'])
    if shape['render']:
        out.append(['rn'])
    return out


CALLS = []


def make_handler(name):
    from clastic import errors
    from clastic.errors import ErrorHandler, ContextualErrorHandler
    if name == 'default':
        return None
    if name == 'debug':
        return ContextualErrorHandler()
    if name == 'reraise':
        return ErrorHandler(reraise_uncaught=True)
    if name == 'broken':
        class BrokenRE(ErrorHandler):
            def render_error(self, request, _error):
                raise RuntimeError('broken render_error')
        return BrokenRE()
    if name == 'broken-late':
        class BrokenLateRE(ErrorHandler):
            # fails only after it has rendered the error its way and scribbled on the result
            def render_error(self, request, _error):
                resp = ErrorHandler.render_error(self, request=request, _error=_error)
                CALLS.append('broken-late rendered')
                resp.data = b'half-finished zq9 custom body'
                resp.headers['X-Zq9-Custom'] = 'scribbled'
                raise RuntimeError('render_error failed after rendering')
        return BrokenLateRE()
    if name == 'broken-http':
        class BrokenHTTPRE(ErrorHandler):
            # fails by raising an HTTP error of its own: still a failed renderer, not a new answer
            def render_error(self, request, _error):
                raise errors.ServiceUnavailable('the error renderer is down zq9')
        return BrokenHTTPRE()

    class OtherRE(ErrorHandler):
        def render_error(self, request, _error):
            return errors.ImATeapot()
    return OtherRE()


_CLASSES = {}


def build_app(shape, handler, cell):
    from clastic import Application, Route, Response, Middleware

    def act_at(pos):
        return cell.get('pos') == pos

    def mk(k, phases):
        if k not in _CLASSES:
            _CLASSES[k] = type('C08MW%d' % k, (Middleware,), {})
        mw = _CLASSES[k]()
        if 'request' in phases:
            def request(next):
                if act_at([k, 'request', 'before']):
                    return cell['act']()
                r = next()
                if act_at([k, 'request', 'after']):
                    return cell['act']()
                return r
            mw.request = request
        if 'endpoint' in phases:
            def endpoint(next):
                if act_at([k, 'endpoint', 'before']):
                    return cell['act']()
                r = next()
                if act_at([k, 'endpoint', 'after']):
                    return cell['act']()
                return r
            mw.endpoint = endpoint
        if 'render' in phases:
            def render(next, context):
                if act_at([k, 'render', 'before']):
                    return cell['act']()
                r = next()
                if act_at([k, 'render', 'after']):
                    return cell['act']()
                return r
            mw.render = render
        return mw
    mws = [mk(k, ph) for k, ph in enumerate(shape['mws'])]
    app_mws = [m for m, lv in zip(mws, shape['levels']) if lv == 'app']
    route_mws = [m for m, lv in zip(mws, shape['levels']) if lv == 'route']

    def ep():
        if act_at(['ep']):
            return cell['act']()
        return {'ctx': 1} if shape['render'] else Response('plain')

    def rn(context):
        if act_at(['rn']):
            return cell['act']()
        return Response('rendered:%r' % (context,))
    from clastic import GET, POST
    routes = [Route('/x', ep, rn if shape['render'] else None, middlewares=route_mws),
              Route('/ok', lambda: Response('fine')),
              GET('/m', lambda: Response('m-get')), POST('/m', lambda: Response('m-post')),
              # typed URL bindings: text the binding's pattern admits but its converter refuses is "no match", never a failure
              Route('/nums/<nums+int>', lambda nums: Response('nums %r' % (nums,))), Route('/one/<n:int>', lambda n: Response('one %r' % (n,))),
              Route('/f/<xs*float>', lambda xs: Response('f %r' % (xs,))), Route('/opt/<k?int>/<rest*>', lambda k, rest: Response('opt %r %r' % (k, rest)))]
    return Application(routes, middlewares=app_mws, error_handler=make_handler(handler))


def expected(shape, pos, beh, handler):
    """-> ('status', code) | ('escape-same',) | ('escape-typeerror',)"""
    bid, kind, factory, exp = beh
    if exp == 'uncaught':
        return ('escape-same',) if handler == 'reraise' else ('status', 418 if handler == 'other' else 500)
    if exp == 'value':
        endpoint_side = pos == ['ep'] or (len(pos) == 3 and pos[1] == 'endpoint')
        if endpoint_side and shape['render']:
            return ('status', 200)
        return ('escape-typeerror',) if handler == 'reraise' else ('status', 418 if handler == 'other' else 500)
    if exp == 200:
        return ('status', 200)
    return ('status', 418 if handler == 'other' else exp)


def well_formed(ctx, r, what, rc, method='GET'):
    if r.exc is not None:
        return
    if len(r.sr_calls) != 1:
        ctx.mismatch('start-response-count', '%s: start_response called %d times' % (what, len(r.sr_calls)), rc)
    import re
    if not isinstance(r.status_line, str) or not re.match(r'^\d{3} \S', r.status_line):
        ctx.mismatch('status-line', '%s: malformed status line %r' % (what, r.status_line), rc)
    if any(not isinstance(c, bytes) for c in r.chunks):
        ctx.mismatch('body-not-bytes', '%s: body chunks are not all bytes' % what, rc)


_twins = {}


def default_twin(shape):
    """the same stack under the default handler: what a failing render_error must fall back to"""
    import json
    key = json.dumps(shape, sort_keys=True)
    if key not in _twins:
        cell = {}
        _twins[key] = (build_app(shape, 'default', cell), cell)
    return _twins[key]


def norm_frames(b):
    import re
    return re.sub(rb'\(\d+ frames', b'(N frames', re.sub(rb'0x[0-9a-f]{6,}', b'0xADDR', b))


def run_one(ctx, app, shape, cell, pos, beh, handler, probe0, rc, accept='*/*', method='GET'):
    bid, kind, factory, exp = beh
    holder = {}

    def act():
        v = factory()
        holder['v'] = v
        if kind == 'raise':
            raise v
        return v
    cell['pos'], cell['act'] = pos, act
    r = call(app, '/x', method, headers={'Accept': accept} if accept is not None else None)
    cell['pos'] = None
    ctx.requests += 1
    what = '%s /x [%s at %s, handler %s]' % (method, bid, pos, handler)
    want = expected(shape, pos, beh, handler)
    if want[0] == 'status':
        if r.exc is not None:
            ctx.mismatch('escaped:' + handler, '%s: exception escaped the WSGI callable: %r' % (what, r.exc), rc)
            return
        well_formed(ctx, r, what, rc, method)
        if r.status != want[1]:
            ctx.mismatch('status:%s' % ('value' if exp == 'value' else 'uncaught' if exp == 'uncaught' else 'http'),
                         '%s: status %s, expected %s' % (what, r.status, want[1]), rc)
            return
    elif want[0] == 'escape-same':
        if r.exc is None or r.exc is not holder.get('v'):
            ctx.mismatch('reraise-not-original', '%s: expected the original exception to escape, got %r / %s' % (what, r.exc, r.status), rc)
            return
    else:
        if r.exc is None or not isinstance(r.exc, TypeError):
            ctx.mismatch('reraise-nonresponse', '%s: expected TypeError to escape, got %r / %s' % (what, r.exc, r.status), rc)
            return
    if handler in ('broken', 'broken-late', 'broken-http') and want[0] == 'status' and want[1] >= 400 and r.exc is None:
        # "an error renderer that itself fails falls back to the default rendering of the same error"
        twin, tcell = default_twin(shape)
        tcell['pos'], tcell['act'] = pos, act
        t = call(twin, '/x', method, headers={'Accept': accept} if accept is not None else None)
        tcell['pos'] = None
        ctx.requests += 1
        if (t.status, norm_frames(t.body), (t.header('Content-Type') or '')) != (r.status, norm_frames(r.body), (r.header('Content-Type') or '')):
            ctx.mismatch('fallback-rendering-differs', '%s: with a failing render_error the client got %s %r (%s), the default rendering is %s %r (%s)'
                         % (what, r.status, r.body[:80], r.header('Content-Type'), t.status, t.body[:80], t.header('Content-Type')), rc)
            return
    # the application still serves the next request exactly as before
    check_probes(ctx, app, probe0, what, rc)


PROBES = [('GET', '/ok'), ('GET', '/m'), ('POST', '/m'), ('HEAD', '/m'), ('GET', '/nowhere'), ('DELETE', '/m')]


def take_probes(app):
    out = []
    for method, path in PROBES:
        p = call(app, path, method)
        out.append((p.status, p.body, repr(p.exc) if p.exc else None, p.header('Allow')))
    return out


def check_probes(ctx, app, probe0, what, rc):
    now = take_probes(app)
    ctx.requests += len(PROBES)
    if now != probe0:
        i = [k for k in range(len(now)) if now[k] != probe0[k]][0]
        ctx.mismatch('probe-changed', '%s: afterwards %s %s gave %r, before the failing request %r'
                     % (what, PROBES[i][0], PROBES[i][1], now[i][:2], probe0[i][:2]), rc)


GAP_PATHS = ['/nums/1//2', '/nums/3///4/5', '/nums//', '/one/' + '7' * 5000, '/one/-' + '0' * 4400 + '1', '/f/1//2.5', '/f//', '/f/1e999/2',
             '/f/' + '9' * 5000, '/one/+', '/one/\u0661\u0662', '/nums/1/\u00b2', '/opt//x', '/opt/+/x', '/f/nan/inf', '/one/1_000', '/f/1_0.5']


def typed_gap_requests(ctx, app, handler):
    """paths in the gap between what a typed binding's pattern admits and what its converter accepts (empty pieces, digit
    strings beyond the interpreter's conversion limit, non-ASCII digits): every one gets a response, and the application goes on"""
    probe0 = take_probes(app)
    for path in GAP_PATHS:
        for method in ('GET', 'POST'):
            case = {'kind': 'typed-gap', 'handler': handler, 'path': path if len(path) < 80 else path[:12] + '...(%d)' % len(path), 'method': method}
            ctx.case(case)
            r = call(app, path, method)
            ctx.requests += 1
            if r.exc is not None:
                ctx.mismatch('escaped:typed-binding', '%s %s [handler %s]: exception escaped the WSGI callable: %r' % (method, case['path'], handler, r.exc), case)
                return
            ctx.nt(['typed-gap', handler, case['path'], method], sample=False)
    check_probes(ctx, app, probe0, 'after the typed-binding paths [handler %s]' % handler, {'kind': 'typed-gap', 'handler': handler})


def nontrivial(pos, beh, handler):
    return pos != ['ep'] or handler != 'default' or any(t in beh[0] for t in ('nonascii', 'huge', 'BadStr', 'BadRepr', 'bytes'))


def run_product(spec, ctx):
    shape = FIXED[spec['shape']]
    ctx.exhaustive = True
    for handler in spec['handlers']:
        cell = {}
        app = build_app(shape, handler, cell)
        probe0 = take_probes(app)
        assert probe0[0][:2] == (200, b'fine'), probe0
        try:
            typed_gap_requests(ctx, app, handler)
        except Exception as e:
            ctx.classify_exc(e, {'kind': 'typed-gap', 'handler': handler}, 'product')
        accepts = ['text/html', 'application/json', 'application/xml', 'text/plain', None]
        for pi, pos in enumerate(positions(shape)):
            for bi, beh in enumerate(beh_table()):
                accept = accepts[(pi + bi) % len(accepts)]
                case = {'shape': spec['shape'], 'handler': handler, 'pos': pos, 'beh': beh[0], 'accept': accept}
                ctx.case(case)
                try:
                    run_one(ctx, app, shape, cell, pos, beh, handler, probe0, case, accept=accept)
                    if nontrivial(pos, beh, handler):
                        ctx.nt(case, sample=len(ctx.samples) < 2 and beh[0].startswith('raise:R'))
                except Exception as e:
                    ctx.classify_exc(e, case, 'product')
    _dedupe(ctx)


def _dedupe(ctx):
    import json
    best = {}
    for v in ctx.violations:
        k = v['sig']
        if k not in best or len(json.dumps(v['case'], default=repr)) < len(json.dumps(best[k]['case'], default=repr)):
            best[k] = v
    ctx.violations = list(best.values())


ACCEPTS = [None, '*/*', 'text/html', 'application/json', 'application/xml', 'text/plain', 'image/png', 'text/html;q=0.1, application/json',
           '', 'garbage', 'text/*;q=0', 'application/json; charset=utf-8']


def strategy():
    from hypothesis import strategies as st
    nb = len(beh_table())
    mw = st.lists(st.sampled_from(PHASES), min_size=1, max_size=3, unique=True).map(sorted)
    shape = st.builds(lambda mws, levels, render: {'mws': mws, 'levels': levels[:len(mws)], 'render': render},
                      st.lists(mw, min_size=0, max_size=3), st.lists(st.sampled_from(['app', 'route']), min_size=3, max_size=3),
                      st.booleans())
    step = st.tuples(st.integers(0, 60), st.integers(0, nb - 1), st.sampled_from(ACCEPTS),
                     st.sampled_from(['GET', 'GET', 'POST', 'HEAD', 'PUT']))
    return st.tuples(shape, st.sampled_from(HANDLERS), st.lists(step, min_size=1, max_size=8))


def history_body(case, ctx):
    shape, handler, steps = case
    rc = [shape, handler, [list(s) for s in steps]]
    ctx.current = rc
    cell = {}
    app = build_app(shape, handler, cell)
    probe0 = take_probes(app)
    poss = positions(shape)
    for pick, bi, accept, method in steps:
        pos = poss[pick % (len(poss) + 1)] if pick % (len(poss) + 1) < len(poss) else None
        if pos is None:
            r = call(app, '/x', method)    # a succeeding request in between
            ctx.requests += 1
            if r.exc is not None or r.status != 200:
                ctx.mismatch('plain-request', 'undisturbed %s /x gave %s %r' % (method, r.status, r.exc), rc)
            continue
        beh = beh_table()[bi]
        run_one(ctx, app, shape, cell, pos, beh, handler, probe0, rc, accept, method)
        ctx.event('handler-' + handler)
        if nontrivial(pos, beh, handler):
            ctx.nt([shape, handler, pos, beh[0]], sample=len(ctx.samples) < 2)


FIXED += [
    {'mws': [['request', 'endpoint', 'render']] * 3, 'levels': ['app', 'app', 'route'], 'render': True},
    {'mws': [['endpoint'], ['render'], ['request']], 'levels': ['route', 'app', 'app'], 'render': True},
    {'mws': [['request', 'endpoint'], ['request', 'endpoint']], 'levels': ['route', 'route'], 'render': False},
    {'mws': [], 'levels': [], 'render': True},
    {'mws': [], 'levels': [], 'render': False},
    {'mws': [['render'], ['render']], 'levels': ['app', 'route'], 'render': True},
    {'mws': [['request'], ['request'], ['request']], 'levels': ['app', 'app', 'app'], 'render': False},
    {'mws': [['endpoint', 'render']], 'levels': ['app'], 'render': True},
]


# ---- error objects that application code builds once and re-uses for every request

def shared_strategy():
    from hypothesis import strategies as st
    return st.tuples(st.sampled_from(['Forbidden', 'NotFound', 'Gone', 'ServiceUnavailable', 'ImATeapot']), st.booleans(),
                     st.sampled_from(['raise', 'return']), st.sampled_from(HANDLERS[:2] + ['broken', 'broken-late', 'broken-http']),
                     st.lists(st.sampled_from(['/hello', '/nothing', '/boom', '/hello/x', '/post-only', '/direct']), min_size=2, max_size=8),
                     st.sampled_from([None, 'text/html', 'application/json']))


def shared_body(case, ctx):
    from clastic import Application, Route, Response, POST, errors
    cn, breaking, how, handler, paths, accept = case
    rc = [cn, breaking, how, handler, list(paths), accept]
    ctx.current = rc
    shared = getattr(errors, cn)('shared instance', is_breaking=breaking)     # built once, like a module-level constant

    def guard(gpath):
        if how == 'raise':
            raise shared
        return shared

    def direct():
        raise shared
    app = Application([Route('/direct', direct), Route('/<gpath*>', guard), Route('/hello', lambda: Response('hello')),
                       Route('/boom', lambda: 1 // 0), POST('/post-only', lambda: Response('posted'))],
                      error_handler=make_handler(handler))
    code = getattr(errors, cn).code
    for i, path in enumerate(paths):
        r = call(app, path, headers={'Accept': accept} if accept else None)
        ctx.requests += 1
        if path == '/direct':
            want = code
        elif breaking:
            want = code                           # the guard's error ends routing
        else:
            want = {'/hello': 200, '/boom': 500}.get(path, code)     # nothing answers: the most recent non-breaking error
        what = 'request #%d GET %s with a shared %s(is_breaking=%s) %sed by a route in front' % (i + 1, path, cn, breaking, how)
        if r.exc is not None:
            ctx.mismatch('shared-error-escaped', '%s: %r' % (what, r.exc), rc)
            return
        if r.status != want:
            ctx.mismatch('shared-error-history', '%s: status %s, expected %s (earlier requests: %s)' % (what, r.status, want, paths[:i]), rc)
            return
    ctx.event('shared-error-histories')
    ctx.nt(rc, sample=len(ctx.samples) < 1)


def shards(tier, seed):
    out = [{'part': 'shared', 'n': 150 if tier == 'quick' else 6000}]
    for h in HANDLERS:
        out.append({'part': 'product', 'shape': 0, 'handlers': [h]})
    out.append({'part': 'product', 'shape': 1, 'handlers': HANDLERS})
    if tier != 'quick':
        for sh in range(2, len(FIXED)):
            out.append({'part': 'product', 'shape': sh, 'handlers': HANDLERS})
    n = 40 if tier == 'quick' else 12000
    out += [{'part': 'random', 'n': n} for _ in range(9)]
    return out


def run_shard(spec, ctx):
    if spec['part'] == 'shared':
        ctx.hyp(shared_strategy(), shared_body, spec['n'], kind='shared')
    elif spec['part'] == 'product':
        run_product(spec, ctx)
    else:
        ctx.hyp(strategy(), history_body, spec['n'], kind='history')


def replay(case, kind, ctx):
    if kind == 'shared' or (isinstance(case, list) and len(case) == 6 and isinstance(case[0], str)):
        shared_body(case, ctx)
        return
    if isinstance(case, dict) and case.get('kind') == 'typed-gap':
        typed_gap_requests(ctx, build_app(FIXED[0], case['handler'], {}), case['handler'])
        return
    if isinstance(case, dict):
        shape = FIXED[case['shape']]
        cell = {}
        app = build_app(shape, case['handler'], cell)
        beh = [b for b in beh_table() if b[0] == case['beh']][0]
        run_one(ctx, app, shape, cell, case['pos'], beh, case['handler'], take_probes(app), case, accept=case.get('accept', '*/*'))
    else:
        history_body(case, ctx)
