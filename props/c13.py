"""C13 - an Application is a conforming WSGI application.
Oracles: wsgiref.validate + own call-count / type / close() recorder; wrapper-order model; reroute identity checks."""
import io, os, re, shutil, gzip
from wsgiref.validate import validator
from vlib.wsgi import make_environ, call_environ, Resp

INFO = {
    'level': 'exploration',
    'rule': ('A: a scenario application producing every response kind (plain / streamed / empty / binary Responses, rendered '
             'contexts, static files text / binary / empty, redirects, 404 / 405 / 500, debug pages, meta pages, gzip- and '
             'cache-processed responses, 201/204, conditional 304) x {GET, HEAD, POST, OPTIONS} x header sets, complete product; '
             'B: Hypothesis-generated stacks of wsgi_wrapper middlewares (application level, embedding, a unique type at two '
             'levels, applications without routes); C: RerouteWSGI raised from an endpoint / a middleware or used as the '
             'endpoint, targeting generated WSGI callables. Non-trivial = A: every (kind, method, header set) cell; B: stacks '
             'with >=2 wrappers or an embedding or no routes; C: every case. Distinct cases counted.'),
    'assumptions': ['wsgiref.validate additionally forbids a Content-Type on 204/304 (an HTTP recommendation, not a WSGI rule): those two statuses are checked by the own recorder only',
                    'two instances of one non-unique wrapper type are not generated; wrappers on route-level middlewares and on routes added after construction are not claimed (O8)'],
}

KINDS = ['small', 'large', 'empty', 'binary', 'streamed', 'ctx', 'redirect', 'raise403', 'ret404', 'boom', 'unknown', 'wrongmethod',
         'slashredirect', 'static-text', 'static-binary', 'static-empty', 'static-noext', 'static-missing', 'static-304', 'meta', 'metajson',
         'status201', 'status204', 'unicode', 'nb403', 'form', 'slashredirect-rawquery', 'small-rawquery',
         # error texts as programs produce them: a dict repr, a JSON fragment, format / template syntax
         'boombrace', 'badbrace', 'retbrace']
METHODS = ['GET', 'HEAD', 'POST', 'OPTIONS']
HEADERSETS = [{}, {'Accept': 'text/html', 'Accept-Encoding': 'gzip'}, {'Accept': 'application/json', 'Accept-Encoding': 'identity', 'Cookie': 'a=b'},
              {'Accept': '*/*', 'Accept-Encoding': 'gzip, deflate', 'User-Agent': 'zq/1.0', 'Referer': 'http://x/'}]


class FileSpy(object):
    """harness wsgi.file_wrapper: remembers the file object so that close() can be checked"""
    opened = []

    def __init__(self, f, blksize=8192):
        self.f = f
        FileSpy.opened.append(f)

    def __iter__(self):
        return self

    def __next__(self):
        d = self.f.read(8192)
        if not d:
            raise StopIteration
        return d

    def close(self):
        self.f.close()


def scenario_app(base, debug, processed):
    from clastic import Application, Route, Response, errors, redirect, POST, StaticApplication
    from clastic.render import render_basic
    from clastic.meta import MetaApplication
    from clastic.middleware import GzipMiddleware, HTTPCacheMiddleware

    def gen():
        yield b'part-1;'
        yield b'part-2;' * 30

    def raise403():
        raise errors.Forbidden()

    def nb403():
        raise errors.Forbidden(is_breaking=False)

    def boom():
        raise ZeroDivisionError('boom <b>')

    def form(request):
        return Response('form:%s' % request.form.get('x', '-'))

    def boombrace():
        raise KeyError({'name': 'zq', 0: [1, {}]})

    def badbrace():
        raise errors.BadRequest('cannot parse {"name": } near %s and {0} {x!r:>{w}} }{')
    routes = [
        ('/boombrace', boombrace), ('/badbrace', badbrace),
        ('/retbrace', lambda: errors.NotFound(detail='no {thing} here: {{}} %(x)s {0}', is_breaking=False)),
        ('/small', lambda: Response('hello')), ('/large', lambda: Response('lorem ipsum ' * 3000)), ('/empty', lambda: Response('')),
        ('/binary', lambda: Response(b'\xff\x00' * 500, mimetype='application/octet-stream')), ('/streamed', lambda: Response(gen())),
        ('/ctx', lambda: {'a': [1, 2], 'b': 'x' * 300}, render_basic), ('/redirect', lambda: redirect('/small')),
        ('/raise403', raise403), ('/ret404', lambda: errors.NotFound()), ('/boom', boom), ('/nb403', nb403),
        POST('/wrongmethod', lambda: Response('posted')), ('/branch/', lambda: Response('branch')), POST('/form', form),
        ('/status201', lambda: Response('made', status=201)), ('/status204', lambda: Response('', status=204)),
        ('/unicode', lambda: Response('é☃' * 200, mimetype='text/html')),
        ('/static', StaticApplication(base)), ('/_meta', MetaApplication()),
    ]
    mws = [GzipMiddleware(), HTTPCacheMiddleware()] if processed else []
    return Application(routes, middlewares=mws, debug=debug, resources={'res_a': 1})


def request_for(kind, method):
    path = {'unknown': '/no/such', 'slashredirect': '/branch', 'static-text': '/static/t.txt', 'static-binary': '/static/b.bin',
            'static-empty': '/static/e.txt', 'static-noext': '/static/noext', 'static-missing': '/static/nope.txt',
            'static-304': '/static/t.txt', 'meta': '/_meta/', 'metajson': '/_meta/json/', 'slashredirect-rawquery': '/branch',
            'small-rawquery': '/small'}.get(kind, '/' + kind)
    body = b''
    headers = {}
    if method == 'POST':
        body = b'x=1&y=2'
        headers['Content-Type'] = 'application/x-www-form-urlencoded'
    return path, body, headers


def check_conformance(ctx, app, path, method, headers, body, what, rc, use_validator=True, query=''):
    """own recorder + (optionally) the standard library validator; returns the recorded response"""
    FileSpy.opened = []
    env = make_environ(path, method, query, headers=headers, body=body, extra={'wsgi.file_wrapper': FileSpy})
    state = {'sr': 0, 'chunks_at_sr': None}
    r = Resp()
    r.sr_calls, r.exc, r.closed, r.chunks, r.status, r.status_line, r.headers, r.body = [], None, None, [], None, None, [], b''

    def start_response(status, hdrs, exc_info=None):
        state['sr'] += 1
        state['chunks_at_sr'] = len(r.chunks)
        r.status_line, r.headers = status, list(hdrs)
        r.sr_calls.append((status, list(hdrs)))
        return lambda data: r.chunks.append(data)
    target = validator(app) if use_validator else app
    # every file the static code opens while answering is remembered (not only those handed to the file wrapper)
    import builtins
    import clastic.static as cs
    had = cs.__dict__.get('open')

    def tracking_open(*a, **kw):
        f = builtins.open(*a, **kw)
        FileSpy.opened.append(f)
        return f
    cs.open = tracking_open
    try:
        return _conformance_call(ctx, target, env, start_response, state, r, method, what, rc)
    finally:
        if had is None:
            del cs.open
        else:
            cs.open = had


def _conformance_call(ctx, target, env, start_response, state, r, method, what, rc):
    try:
        it = target(env, start_response)
        try:
            for chunk in it:
                if state['sr'] == 0:
                    ctx.mismatch('body-before-start-response', '%s: body chunk produced before start_response' % what, rc)
                r.chunks.append(chunk)
        finally:
            if hasattr(it, 'close'):
                it.close()
    except AssertionError as e:
        ctx.mismatch('wsgi-validator', '%s: wsgiref.validate: %s' % (what, str(e)[:200]), rc)
        return None
    except Exception as e:
        ctx.mismatch('wsgi-call-raises', '%s: %r' % (what, e), rc)
        return None
    ctx.requests += 1
    if state['sr'] != 1:
        ctx.mismatch('start-response-count', '%s: start_response called %d times' % (what, state['sr']), rc)
        return None
    if not isinstance(r.status_line, str) or not re.match(r'^\d{3} [^\r\n]+$', r.status_line):
        ctx.mismatch('status-line', '%s: status line %r' % (what, r.status_line), rc)
        return None
    for h in r.headers:
        if not (isinstance(h, tuple) and len(h) == 2 and type(h[0]) is str and type(h[1]) is str):
            ctx.mismatch('header-types', '%s: header %r is not a pair of str' % (what, h), rc)
            return None
        if '\n' in h[0] or '\n' in h[1] or '\r' in h[1]:
            ctx.mismatch('header-newline', '%s: header %r contains a line break' % (what, h), rc)
            return None
    if any(type(c) is not bytes for c in r.chunks):
        ctx.mismatch('chunk-types', '%s: body chunks %r' % (what, [type(c).__name__ for c in r.chunks][:4]), rc)
        return None
    r.status = int(r.status_line[:3])
    r.body = b''.join(r.chunks)
    if method == 'HEAD' and r.body:
        ctx.mismatch('head-body', '%s: HEAD response carries %d body bytes' % (what, len(r.body)), rc)
    for f in FileSpy.opened:
        if not f.closed:
            ctx.mismatch('file-not-closed', '%s: a file opened for the response is still open after close()' % what, rc)
    return r


def run_kinds(spec, ctx):
    base = os.path.join(os.environ.get('VERIF_RUNDIR', '/var/tmp'), 'c13-%d' % ctx.shard)
    os.makedirs(base, exist_ok=True)
    for name, data in (('t.txt', b'text file\n' * 50), ('b.bin', bytes(range(256)) * 20), ('e.txt', b''), ('noext', b'plain words')):
        with open(os.path.join(base, name), 'wb') as f:
            f.write(data)
    ctx.exhaustive = True
    try:
        for debug, processed in spec['variants']:
            app = scenario_app(base, debug, processed)
            for kind in KINDS:
                for method in METHODS:
                    for hi, hs in enumerate(HEADERSETS):
                        case = {'kind': kind, 'method': method, 'headers': hi, 'debug': debug, 'processed': processed}
                        ctx.case(case)
                        try:
                            kind_case(ctx, app, case, base)
                            ctx.nt(case, sample=len(ctx.samples) < 2 and kind.startswith('static') and method == 'HEAD')
                        except Exception as e:
                            ctx.classify_exc(e, case, 'kind')
    finally:
        shutil.rmtree(base, ignore_errors=True)
        _dedupe(ctx)


def kind_case(ctx, app, case, base):
    kind, method = case['kind'], case['method']
    path, body, headers = request_for(kind, method)
    headers.update(HEADERSETS[case['headers']])
    what = '%s %s (%s%s%s)' % (method, path, kind, ', debug' if case['debug'] else '', ', gzip+cache' if case['processed'] else '')
    if kind == 'static-304':
        first = check_conformance(ctx, app, path, 'GET', {}, b'', what + ' [priming]', case)
        if first is None:
            return
        lm = [v for k, v in first.headers if k.lower() == 'last-modified']
        if lm:
            headers['If-Modified-Since'] = lm[0]
    query = 'q=caf\xc3\xa9&r=\xff' if kind.endswith('rawquery') else ('' if case['headers'] % 2 == 0 else 'a=1&b=%20x')
    r = check_conformance(ctx, app, path, method, headers, body, what, case, use_validator=kind not in ('status204', 'static-304'), query=query)
    if r is None:
        return
    ctx.event('status-%s' % r.status)


def _dedupe(ctx):
    import json
    best = {}
    for v in ctx.violations:
        k = v['sig']
        if k not in best or len(json.dumps(v['case'], default=repr)) < len(json.dumps(best[k]['case'], default=repr)):
            best[k] = v
    ctx.violations = list(best.values())


# ------------------------------------------------------------------ B: wrapper stacks

SEEN = []
_WCLASSES = {}


_SHAPE = ['closure']


class _ClassWrapper(object):
    def __init__(self, app, wid):
        self.app = app
        self.wid = wid

    def __call__(self, environ, start_response):
        SEEN.append(self.wid)
        return self.app(environ, start_response)


def _wclass(tid, has_wrapper):
    """one middleware type per (tid, wrapper-ness); odd types derive from the preceding even one (both of its variants), so
    stacks contain distinct types that are related by inheritance"""
    from clastic import Middleware
    key = (tid, has_wrapper)
    if key not in _WCLASSES:
        def wsgi_wrapper(self, inner):
            wid = self.wid
            if _SHAPE[0] == 'class' or (_SHAPE[0] == 'mixed' and int(wid[1:]) % 2):
                # the conventional class-based WSGI middleware: the wrapped application kept on the instance as `.app`
                return _ClassWrapper(inner, wid)

            def wrapped(environ, start_response):
                SEEN.append(wid)
                return inner(environ, start_response)
            return wrapped
        attrs = {'wsgi_wrapper': wsgi_wrapper if has_wrapper else None}
        bases = (Middleware,) if tid % 2 == 0 else (_wclass(tid - 1, True), _wclass(tid - 1, False))
        _WCLASSES[key] = type('W%d%s' % (tid, 'w' if has_wrapper else 'n'), bases, attrs)
    return _WCLASSES[key]


def wrapper_mw(tid, has_wrapper):
    m = _wclass(tid, has_wrapper)()
    m.wid = 'W%d' % tid
    return m


def stack_strategy():
    from hypothesis import strategies as st
    mw = st.tuples(st.integers(0, 5), st.booleans() | st.just(True))
    return st.fixed_dictionaries({
        'outer': st.lists(mw, max_size=4, unique_by=lambda t: t[0]),
        'inner': st.one_of(st.none(), st.lists(mw, max_size=3, unique_by=lambda t: t[0])),
        'inner2': st.one_of(st.none(), st.none(), st.lists(mw, max_size=3, unique_by=lambda t: t[0])),
        'routes': st.sampled_from(['one', 'two', 'none', 'embedded-only']),
        'prefix': st.sampled_from(['/sub', '/', '/a/b']),
        'request': st.sampled_from(['hit', 'miss', 'inner', 'wrongmethod']),
        'validator': st.booleans(),
        # public API used after construction: the error handler is replaced / reset; the wrapper stack must survive it
        'rehandle': st.sampled_from([None, None, 'reset', 'new']),
        # what a wsgi_wrapper returns: a closure, or an instance of a class that keeps the wrapped application as `.app`
        'shape': st.sampled_from(['closure', 'class', 'mixed']),
    })


def order_problem(seen, outer_w, inner_w, expected_set):
    """the statement fixes: every wrapper type once; each list's own order; an embedding application's wrappers before
    those only embedded applications contribute.  The relative order of two sibling applications is not fixed."""
    if sorted(seen) != sorted(expected_set):
        return 'expected each of %r exactly once' % (expected_set,)
    pos = dict((w, i) for i, w in enumerate(seen))
    if [w for w in seen if w in outer_w] != outer_w:
        return 'the embedding application\'s list order is not kept'
    inner_only = [w for w in seen if w not in outer_w]
    if outer_w and inner_only and max(pos[w] for w in outer_w) > min(pos[w] for w in inner_only):
        return 'an embedded application\'s wrapper runs outside the embedding application\'s'
    for lst in inner_w:
        own = [w for w in lst if w not in outer_w]
        if [w for w in seen if w in own] != own and not any(w in other for w in own for other in inner_w if other is not lst):
            return 'an embedded application\'s list order is not kept'
    return None


def stack_body(case, ctx):
    from clastic import Application, Route, Response, POST
    rc = case
    _SHAPE[0] = case.get('shape') or 'closure'
    outer_mws = [wrapper_mw(t, w) for t, w in case['outer']]
    has_w = dict((t, w) for t, w in case['outer'])
    routes = []
    if case['routes'] in ('one', 'two'):
        routes.append(Route('/hit', lambda: Response('hit')))
    if case['routes'] == 'two':
        routes.append(POST('/wrongmethod', lambda: Response('post')))
    inner_specs = []
    if case['routes'] != 'none':
        for k, key in enumerate(('inner', 'inner2')):
            spec_k = case.get(key)
            if spec_k is None:
                continue
            # a type present at several levels must be the same class with the same wrapper-ness; every application
            # gets its *own instances* (two sibling applications listing one unique type still count as one type)
            spec_k = [(t, has_w.setdefault(t, w)) for t, w in spec_k]
            inner_mws = [wrapper_mw(t, w) for t, w in spec_k]
            inner = Application([Route('/in', lambda: Response('inner'))], middlewares=inner_mws)
            routes.append((case['prefix'] if k == 0 else '/second', inner))
            inner_specs.append(spec_k)
    inner_spec = inner_specs[0] if inner_specs and case.get('inner') is not None else None
    try:
        app = Application(routes, middlewares=outer_mws)
    except Exception as e:
        ctx.mismatch('wrapper-app-construction', 'constructing the application raised %r' % e, rc)
        return
    if case.get('rehandle'):
        from clastic.errors import ErrorHandler
        try:
            app.set_error_handler(None if case['rehandle'] == 'reset' else ErrorHandler())
        except Exception as e:
            ctx.mismatch('wrapper-app-construction', 'set_error_handler() after construction raised %r' % e, rc)
            return
        ctx.event('error-handler-replaced-after-construction')
    outer_w = ['W%d' % t for t, w in case['outer'] if w]
    inner_w = [['W%d' % t for t, w in sp if w] for sp in inner_specs]
    expected_set = list(outer_w)
    for lst in inner_w:
        for wid in lst:
            if wid not in expected_set:
                expected_set.append(wid)
    path = {'hit': '/hit', 'miss': '/zzz', 'wrongmethod': '/wrongmethod',
            'inner': (case['prefix'].rstrip('/') + '/in')}[case['request']]
    del SEEN[:]
    what = 'GET %s on outer %s embedded %s routes=%s' % (path, case['outer'], inner_specs, case['routes'])
    if case['validator']:
        r = check_conformance(ctx, app, path, 'GET', {}, b'', what, rc)
    else:
        r = call_environ(app, make_environ(path))
        ctx.requests += 1
        if r.exc is not None:
            ctx.mismatch('wrapper-request-raises', '%s: %r' % (what, r.exc), rc)
            return
    if r is None:
        return
    problem = order_problem(list(SEEN), outer_w, inner_w, expected_set)
    if problem:
        sig = 'wrappers-without-routes' if (case['routes'] == 'none' or not app.routes) else 'wrapper-order'
        ctx.mismatch(sig, '%s: wrappers ran as %r: %s (outer list %r, embedded lists %r)' % (what, list(SEEN), problem, outer_w, inner_w), rc)
        return
    ctx.event('routes-' + case['routes'])
    if len(expected_set) >= 2 or inner_specs or case['routes'] == 'none':
        ctx.nt(rc, sample=len(ctx.samples) < 2)


# ------------------------------------------------------------------ C: RerouteWSGI

def reroute_strategy():
    from hypothesis import strategies as st
    target = st.fixed_dictionaries({
        'status': st.sampled_from(['200 OK', '201 Created', '404 Not Found', '302 Found', '500 Oops', '299 Custom Reason']),
        'headers': st.lists(st.tuples(st.sampled_from(['X-A', 'Content-Type', 'Set-Cookie', 'Location', 'X-Dup', 'X-Dup']),
                                      st.sampled_from(['1', 'text/zq', 'a=b; Path=/', '/elsewhere', 'v1', 'v2'])), max_size=4),
        'chunks': st.lists(st.sampled_from([b'', b'abc', b'\xff\x00', b'x' * 5000, b'line\n']), max_size=4),
        'reads_body': st.booleans(),
        # a WSGI application is any callable taking two positional arguments, whatever they are called
        'shape': st.sampled_from(['named', 'named', 'renamed', 'varargs', 'partial', 'instance', 'lambda']),
    })
    return st.tuples(target, st.sampled_from(['endpoint', 'raise-endpoint', 'raise-middleware', 'raise-render']),
                     st.sampled_from(['GET', 'POST', 'PUT']), st.sampled_from(['', 'a=1&b=2']),
                     # middlewares of the rerouting route: pass-through, providing, the built-in stats middleware, and a user middleware of
                     # the same try / except Exception / finally shape (a reroute passes through them like any exception would)
                     st.lists(st.sampled_from(['plain', 'provides', 'stats', 'guard']), max_size=2), st.sampled_from(['/go', '/go/deep/er']),
                     # application-level WSGI wrappers around the rerouting application: handing on a copy of the environ with an
                     # entry of their own, decorating start_response, calling the inner application lazily, or passing through
                     st.lists(st.sampled_from(['copy', 'header', 'lazy', 'pass']), max_size=3, unique=True),
                     # the rerouting route as a branch route of a path-rewriting application, requested by a non-canonical path
                     st.sampled_from([None, None, 'rewrite-noslash', 'rewrite-double']))


def reroute_body(case, ctx):
    from clastic import Application, Route, Response, Middleware
    from clastic.application import RerouteWSGI
    tspec, how, method, query, mwkinds, path = case[:6]
    wrappers = list(case[6]) if len(case) > 6 else []
    slash = case[7] if len(case) > 7 else None
    rc = [tspec, how, method, query, list(mwkinds), path, wrappers, slash]
    ctx.current = rc
    got = {}

    def target(environ, start_response):
        got['environ'] = environ
        got['snapshot_after'] = dict(environ)
        if tspec['reads_body']:
            got['body'] = environ['wsgi.input'].read()
        start_response(tspec['status'], [tuple(h) for h in tspec['headers']])
        return list(tspec['chunks'])
    shape = tspec.get('shape', 'named')
    if shape == 'renamed':
        def target_(env, start):
            return target(env, start)
    elif shape == 'varargs':
        def target_(*args):
            return target(*args)
    elif shape == 'partial':
        import functools
        target_ = functools.partial(lambda tag, e, s: target(e, s), 'zq')
    elif shape == 'instance':
        class _T(object):
            def __call__(self, e, s):
                return target(e, s)
        target_ = _T()
    elif shape == 'lambda':
        target_ = lambda e, s: target(e, s)     # noqa: E731
    else:
        target_ = target
    rr = RerouteWSGI(target_)

    class Plain(Middleware):
        def request(self, next):
            return next()

    class Prov(Middleware):
        provides = ('zq_val',)

        def request(self, next):
            return next(zq_val=1)

    class Raiser(Middleware):
        def request(self, next):
            raise rr
    class Guard(Middleware):
        seen = []

        def request(self, next):
            try:
                ret = next()
                outcome = 'returned'
            except Exception:
                outcome = 'raised'
                raise
            finally:
                Guard.seen.append(outcome)
            return ret

    def make_mw(k):
        if k == 'stats':
            from clastic.middleware.stats import StatsMiddleware
            return StatsMiddleware()
        return {'plain': Plain, 'provides': Prov, 'guard': Guard}[k]()
    mws = [make_mw(k) for k in dict.fromkeys(mwkinds)]

    def ep_raise():
        raise rr

    def rn_raise(context):
        raise rr
    simple = path == '/go'
    pattern = '/go' if simple else '/go/<rest*>'
    if slash:
        pattern += '/'
        if slash == 'rewrite-double':
            path = path.replace('/go', '/go/', 1) if path != '/go' else '//go'
    if how == 'endpoint':
        route = Route(pattern, rr, middlewares=mws)
    elif how == 'raise-endpoint':
        ep = ep_raise if simple else (lambda rest: ep_raise())
        route = Route(pattern, ep, middlewares=mws)
    elif how == 'raise-render':
        ep = (lambda: {'c': 1}) if simple else (lambda rest: {'c': 1})
        route = Route(pattern, ep, rn_raise, middlewares=mws)
    else:
        ep = (lambda: Response('never')) if simple else (lambda rest: Response('never'))
        route = Route(pattern, ep, middlewares=mws + [Raiser()])
    def make_wrapper(kind):
        def wsgi_wrapper(self, inner):
            if kind == 'copy':
                def wrapped(environ, start_response):
                    e2 = dict(environ)
                    e2['zq.wrapper.copy'] = 'added-by-wrapper'
                    return inner(e2, start_response)
            elif kind == 'header':
                def wrapped(environ, start_response):
                    def sr(status, headers, exc_info=None):
                        return start_response(status, list(headers) + [('X-Zq-Wrapper', 'header')], exc_info)
                    return inner(environ, sr)
            elif kind == 'lazy':
                def wrapped(environ, start_response):
                    for chunk in inner(environ, start_response):
                        yield chunk
            else:
                def wrapped(environ, start_response):
                    return inner(environ, start_response)
            return wrapped
        return type('ZqWrap_' + kind, (Middleware,), {'wsgi_wrapper': wsgi_wrapper})()
    app = Application([route], middlewares=[make_wrapper(k) for k in wrappers], **({'slash_mode': 'rewrite'} if slash else {}))
    body = b'payload-bytes' if method in ('POST', 'PUT') else b''
    env = make_environ(path, method, query, headers={'X-Custom': 'zq', 'Cookie': 'k=v'}, body=body, extra={'zq.custom': object()})
    before = dict(env)
    r = call_environ(app, env)
    ctx.requests += 1
    what = '%s %s rerouted (%s) to target %r' % (method, path, how, tspec['status'])
    if r.exc is not None:
        ctx.mismatch('reroute-raises', '%s: %r' % (what, r.exc), rc)
        return
    if 'environ' not in got:
        ctx.mismatch('reroute-target-not-called', '%s: the target application was never called (status %s)' % (what, r.status), rc)
        return
    if wrappers:
        what += ' behind WSGI wrappers %s' % wrappers
        ctx.event('reroute-behind-wrappers')
    if 'copy' not in wrappers and got['environ'] is not env:
        ctx.mismatch('reroute-environ-copy', '%s: the target received a different environ object' % what, rc)
        return
    if 'copy' in wrappers and got['snapshot_after'].get('zq.wrapper.copy') != 'added-by-wrapper':
        # the request's own environ is the one the wrapper stack handed to the application
        ctx.mismatch('reroute-bypasses-wrappers', '%s: the target did not receive the environ the wrapper handed on (its entry is missing)' % what, rc)
        return
    for k, v in before.items():
        if k not in got['snapshot_after'] or got['snapshot_after'][k] is not v and got['snapshot_after'][k] != v:
            ctx.mismatch('reroute-environ-entry', '%s: environ[%r] was %r, the target saw %r' % (what, k, v, got['snapshot_after'].get(k, '<missing>')), rc)
            return
    if tspec['reads_body'] and got.get('body') != body:
        ctx.mismatch('reroute-body-consumed', '%s: the target read %r from wsgi.input, the client sent %r' % (what, got.get('body'), body), rc)
        return
    want_headers = [tuple(h) for h in tspec['headers']] + ([('X-Zq-Wrapper', 'header')] if 'header' in wrappers else [])
    if r.status_line != tspec['status'] or [tuple(h) for h in r.headers] != want_headers or \
            r.body != b''.join(tspec['chunks']):
        ctx.mismatch('reroute-not-verbatim', '%s: client saw %r %r %r' % (what, r.status_line, r.headers, r.body[:40]), rc)
        return
    ctx.event('reroute-' + how)
    ctx.nt(rc, sample=len(ctx.samples) < 2)


class _TargetFailure(Exception):
    pass


def failing_cases():
    return [['failing', mode, how, mw, wr] for mode in ('before-start', 'after-start', 'mid-body', 'wrapper-after-inner')
            for how in ('endpoint', 'raise-endpoint', 'raise-middleware', 'raise-render') for mw in ('none', 'stats', 'guard')
            for wr in ('none', 'header', 'lazy', 'pass')]


def failing_body(case, ctx):
    """reroute targets (and application-level WSGI wrappers) that fail *after* the response was started (round 14): whatever the
    Application does about the failure - let it travel to the server, or report it through start_response(..., exc_info) as
    PEP 3333 prescribes - it must not call start_response a second time without exc_info ("exactly once")"""
    from clastic import Application, Route, Response, Middleware
    from clastic.application import RerouteWSGI
    _, mode, how, mw, wr = case
    ctx.current = case

    def target(environ, start_response):
        if mode == 'before-start':
            raise _TargetFailure('before start_response')
        start_response('200 OK', [('Content-Type', 'text/zq')])
        if mode == 'after-start':
            raise _TargetFailure('after start_response')
        if mode == 'mid-body':
            def chunks():
                yield b'first;'
                raise _TargetFailure('while iterating')
            return chunks()
        return [b'whole body']
    rr = RerouteWSGI(target)

    class Raiser(Middleware):
        def request(self, next):
            raise rr

    class Guard(Middleware):
        def request(self, next):
            try:
                return next()
            except Exception:
                raise
            finally:
                pass
    mws = []
    if mw == 'stats':
        from clastic.middleware.stats import StatsMiddleware
        mws = [StatsMiddleware()]
    elif mw == 'guard':
        mws = [Guard()]

    def ep_raise():
        raise rr

    def rn_raise(context):
        raise rr
    if how == 'endpoint':
        route = Route('/go', rr, middlewares=mws)
    elif how == 'raise-endpoint':
        route = Route('/go', ep_raise, middlewares=mws)
    elif how == 'raise-render':
        route = Route('/go', lambda: {'c': 1}, rn_raise, middlewares=mws)
    else:
        route = Route('/go', lambda: Response('never'), middlewares=mws + [Raiser()])

    def wsgi_wrapper(self, inner):
        if mode == 'wrapper-after-inner':
            def wrapped(environ, start_response):
                list(inner(environ, start_response))
                raise _TargetFailure('in the wrapper, after the inner application answered')
        elif wr == 'header':
            def wrapped(environ, start_response):
                def sr(status, headers, exc_info=None):
                    return start_response(status, list(headers) + [('X-Zq-Wrapper', 'header')], exc_info)
                return inner(environ, sr)
        elif wr == 'lazy':
            def wrapped(environ, start_response):
                for chunk in inner(environ, start_response):
                    yield chunk
        else:
            def wrapped(environ, start_response):
                return inner(environ, start_response)
        return wrapped
    wrappers = [] if (wr == 'none' and mode != 'wrapper-after-inner') else [type('ZqFWrap', (Middleware,), {'wsgi_wrapper': wsgi_wrapper})()]
    app = Application([route], middlewares=wrappers)
    calls = []

    def start_response(status, headers, exc_info=None):
        calls.append((status, exc_info is not None))
        return lambda data: None
    exc = None
    try:
        it = app(make_environ('/go', 'GET', ''), start_response)
        try:
            for _ in it:
                pass
        finally:
            if hasattr(it, 'close'):
                it.close()
    except _TargetFailure as e:
        exc = e
    except Exception as e:
        exc = e
    ctx.requests += 1
    plain = [c for c in calls if not c[1]]
    what = 'GET /go rerouted (%s, route middleware %s, wrapper %s) to a target failing %s' % (how, mw, wr, mode)
    if len(plain) > 1:
        ctx.mismatch('start-response-twice', '%s: start_response was called %d times without exc_info: %r (exception seen by the server: %r)'
                     % (what, len(plain), [c[0] for c in calls], exc), case)
        return
    if mode != 'before-start' and not plain:
        ctx.mismatch('reroute-target-not-called', '%s: the target never got to start the response (%r)' % (what, exc), case)
        return
    ctx.event('reroute-failing-' + mode)
    ctx.nt(case, sample=False)


def shards(tier, seed):
    out = [{'part': 'kinds', 'variants': [v]} for v in [(False, False), (False, True), (True, False), (True, True)]]
    n = 150 if tier == 'quick' else 30000
    out += [{'part': 'stacks', 'n': n} for _ in range(6)]
    out += [{'part': 'reroute', 'n': n} for _ in range(6)]
    out.append({'part': 'failing'})
    return out


def run_shard(spec, ctx):
    if spec['part'] == 'kinds':
        run_kinds(spec, ctx)
    elif spec['part'] == 'failing':
        ctx.exhaustive = True
        ctx.loop(failing_cases(), failing_body, kind='failing', max_sigs=6)
    elif spec['part'] == 'stacks':
        ctx.hyp(stack_strategy(), stack_body, spec['n'], kind='stack')
    else:
        ctx.hyp(reroute_strategy(), reroute_body, spec['n'], kind='reroute')


def replay(case, kind, ctx):
    if kind == 'failing' or (isinstance(case, list) and case and case[0] == 'failing'):
        failing_body(case, ctx)
    elif kind == 'stack' or (isinstance(case, dict) and 'outer' in case):
        stack_body(case, ctx)
    elif kind == 'reroute' or isinstance(case, list):
        reroute_body(case, ctx)
    else:
        base = os.path.join(os.environ.get('VERIF_RUNDIR', '/var/tmp'), 'c13p-%d' % os.getpid())
        os.makedirs(base, exist_ok=True)
        try:
            for name, data in (('t.txt', b'text file\n' * 50), ('b.bin', bytes(range(256)) * 20), ('e.txt', b''), ('noext', b'plain words')):
                with open(os.path.join(base, name), 'wb') as f:
                    f.write(data)
            kind_case(ctx, scenario_app(base, case['debug'], case['processed']), case, base)
        finally:
            shutil.rmtree(base, ignore_errors=True)
