"""C03 - middlewares nest in the documented M-shaped order.  Oracle: M1 merge rule + onion interpreter."""
from vlib import inject as I, injcheck as J
from vlib.wsgi import call

INFO = {
    'level': 'exploration',
    'rule': ('G1 stacks over 1-3 application levels (embedding) plus route level, unique / non-unique / '
             'non-reorderable middleware types, crossed with one deviating function (any function on the route, or '
             'none) and a deviation kind (raise before/after next, early Response, swallow, replace the result; '
             'endpoint/render raising) and endpoint returning Response or context; also on the catch-all route. The '
             'recorded enter / saw-return / saw-exception trace and the final outcome must equal the model\'s, tokens '
             'compared by object identity. Every tier also runs the complete family of 9 middleware-type lists on application x embedded '
             'application x route (729 stacks, undisturbed and with one deviation). Non-trivial = >=2 phases populated and (a deviation is present or a unique '
             'type occurs at two levels); distinct (configuration, deviation) pairs counted.'),
    'assumptions': ['two instances of one unique type inside one list are generated only for the Route\'s own list (kept once / a non-reorderable one refused); '
                    'when such a duplicate meets a second construction defect either documented exception is accepted',
                    're-raising error handler so that the original exception object is observable'],
}

MW_DEV = ['raise-before', 'raise-after', 'early-response', 'swallow', 'replace-after']


def strategy():
    from vlib import gen_config as G
    from hypothesis import strategies as st
    # half of the configurations only use names that are offered to the function (high acceptance), the other half also draw
    # parameters nothing outside offers - e.g. an optional parameter whose name a middleware further *inside* provides
    cfg = st.one_of(G.config(max_levels=1, free_p=0.0, posonly=False, nonreorderable=True, max_mws=5, all_kinds=False, renderless_ctx=True, route_dups=True),
                    G.config(max_levels=3, free_p=0.0, posonly=False, nonreorderable=True, max_mws=6, all_kinds=False, renderless_ctx=True, route_dups=True),
                    G.config(max_levels=1, free_p=0.08, posonly=False, nonreorderable=True, max_mws=5, all_kinds=False, renderless_ctx=True, route_dups=True),
                    G.config(max_levels=3, free_p=0.08, posonly=False, nonreorderable=True, max_mws=6, all_kinds=False, renderless_ctx=True, route_dups=True))
    sib_mw = st.fixed_dictionaries({'tid': st.integers(0, 5), 'style': st.sampled_from(['func', 'method']),
                                    'request': st.sampled_from([[], None]), 'endpoint': st.sampled_from([None, []]), 'render': st.just(None)}
                                   ).map(lambda m: dict(m, unique=m['tid'] < 4, reorderable=True, provides=[], endpoint_provides=[], render_provides=[]))
    sib = st.fixed_dictionaries({'level': st.integers(0, 2), 'pos': st.sampled_from(['before', 'before', 'after']),
                                 'mws': st.lists(sib_mw, min_size=1, max_size=2, unique_by=lambda m: m['tid'])})
    return st.tuples(cfg, st.integers(0, 40), st.sampled_from(MW_DEV), st.sampled_from(['route', 'route', 'null']),
                     st.sampled_from(['inner', 'inner', 'any', 'none']), st.sampled_from(['response', 'response', 'base', 'http']),
                     st.lists(sib, max_size=2))


def _also_rejected_otherwise(cfg, exc):
    """the configuration has a second, independent defect (seen once the duplicate is treated as reorderable) whose documented
    exception is the one that was raised"""
    import copy
    c2 = copy.deepcopy(cfg)
    for m in I.all_mws(c2):
        m['reorderable'] = True
    try:
        plan2 = I.predict(c2)
    except I.Reject as r2:
        return isinstance(exc, I.EXC_FOR.get(r2.kind, ()) + ((RuntimeError,) if getattr(r2, 'cyclic', False) else ()))
    # (the other "defect" may be a cyclic provide graph, which the quantifier lets construction refuse with RuntimeError)
    return bool(plan2.cyclic) and isinstance(exc, RuntimeError)


def compare(ctx, w, r, ev, outcome, rc, what):
    real = [(e, fid, p) for e, fid, p in w.trace if e in ('enter', 'saw-exc', 'saw-return')]
    if [(e[0], e[1]) for e in real] != [(e[0], e[1]) for e in ev]:
        ctx.mismatch('trace-order', '%s: trace %r, model %r' % (what, [(e[0], e[1]) for e in real], [(e[0], e[1]) for e in ev]), rc)
        return False
    for (e, fid, p), m in zip(real, ev):
        if e != 'enter':
            tok = m[2]
            if tok in w.tokens and p is not w.tokens[tok]:
                ctx.mismatch('trace-identity', '%s: %s %s observed %r, expected the very object %s' % (what, fid, e, p, tok), rc)
                return False
            if tok not in w.tokens and tok != 'resp:null':
                ctx.mismatch('trace-token', '%s: model token %s never created' % (what, tok), rc)
                return False
    kind, tok = outcome
    if kind == 'exc':
        if r.exc is None or r.exc is not w.tokens.get(tok):
            ctx.mismatch('outcome-exception', '%s: expected exception %s to escape (re-raising handler), got %r / status %s'
                         % (what, tok, r.exc, r.status), rc)
            return False
    elif tok == 'ctx':
        # a context came back without a renderer: the dispatcher's "expected Response" TypeError (re-raising handler) or its 500
        if not ((isinstance(r.exc, TypeError) and 'expected Response' in str(r.exc)) or (r.exc is None and r.status == 500)):
            ctx.mismatch('outcome-context', '%s: a context came back without a renderer; expected the "expected Response" failure, got %r / %s'
                         % (what, r.exc, r.status), rc)
            return False
        ctx.event('renderless-context')
    else:
        if r.exc is not None:
            ctx.mismatch('outcome-raised', '%s: expected response %s, got exception %r' % (what, tok, r.exc), rc)
            return False
        if tok == 'ctx':
            pass
        elif tok == 'resp:null':
            if r.status not in (404, 405):
                ctx.mismatch('outcome-null', '%s: expected 404/405, got %s' % (what, r.status), rc)
                return False
        elif w.flavour == 'http' and tok.startswith('resp:'):
            if r.status != 418 or tok.encode() not in r.body:
                ctx.mismatch('outcome-http-response', '%s: expected the returned 418 error %r, got %s %r' % (what, tok, r.status, r.body[:80]), rc)
                return False
        elif r.status != 200 or r.body != tok.encode():
            ctx.mismatch('outcome-response', '%s: expected 200 %r, got %s %r' % (what, tok, r.status, r.body[:80]), rc)
            return False
    return True


def body(case, ctx):
    cfg, pick, mwdev, target, where = case[:5]
    flavour = case[5] if len(case) > 5 else 'response'
    sibs = case[6] if len(case) > 6 else []
    sibs = [dict(sb, level=sb['level'] % len(cfg['levels'])) for sb in sibs]
    rc = [cfg, pick, mwdev, target, where, flavour, sibs]
    ctx.current = rc
    cfg = dict(cfg, siblings=sibs)
    if sibs:
        ctx.event('with-sibling-routes')
    try:
        plan, rej = I.predict(cfg), None
    except I.Reject as r:
        plan, rej = None, r
    try:
        built, exc = I.build(cfg), None
    except Exception as e:
        built, exc = None, e
    if rej is not None:
        ctx.event('reject-' + rej.kind)
        if exc is None:
            ctx.mismatch('accepted-' + rej.kind, 'model rejects (%s), clastic constructed' % rej, rc)
        elif not isinstance(exc, I.EXC_FOR[rej.kind] + ((RuntimeError,) if getattr(rej, 'cyclic', False) else ())):
            if rej.kind == 'dup-nonreorderable' and _also_rejected_otherwise(cfg, exc):
                ctx.event('two-independent-defects')      # which of the two is reported first is not stated
                return
            ctx.mismatch('wrong-exception-' + rej.kind, 'model rejects (%s), clastic raised %r' % (rej, exc), rc)
        elif rej.kind == 'dup-nonreorderable':
            ctx.nt(['reject', cfg], sample=False)
        return
    if exc is not None:
        if plan.cyclic:
            ctx.event('cyclic-exempt')
            return
        ctx.mismatch('spurious-reject', 'model accepts, clastic raised %r' % exc, rc)
        return
    rt = cfg['route']
    view = plan.null if target == 'null' else plan.route
    ch = view.chain()
    fids = ch['request'] + ch['endpoint'] + ([] if target == 'null' else ['ep']) + \
        (ch['render'] + ['rn'] if (target != 'null' and rt.get('rn') is not None) else [])
    beh = {}
    if where != 'none' and fids:
        fid = fids[pick % len(fids)]
        if fid.startswith('SH') and mwdev in ('raise-after', 'swallow', 'replace-after'):
            mwdev = 'early-response'     # a shared instance occupies two layers: keep to deviations that act once
        beh[fid] = 'raise' if fid in ('ep', 'rn') else mwdev
    w = built.world
    w.beh = dict(beh)
    w.flavour = flavour
    ctx.event('flavour-' + flavour)
    w.new_request()
    if target == 'null':
        path = '/nope'
        ev, outcome = view.simulate(beh)
    else:
        path, _ = I.request_path(cfg, built, w.reqno)
        ev, outcome = view.simulate(beh, rt.get('ep_returns', 'response'), rt.get('rn') is not None)
    r = call(built.app, path)
    ctx.requests += 1
    ok = compare(ctx, w, r, ev, outcome, rc, 'GET %s dev=%r' % (path, beh))
    ctx.event('target-' + target)
    ctx.event('levels-%d' % len(cfg['levels']))
    for b in beh.values():
        ctx.event('dev-' + b)
    phases = sum(1 for ph in ('request', 'endpoint', 'render') if ch[ph])
    tids = {}
    dup = False
    for li, lv in enumerate(cfg['levels'] + [cfg['route']]):
        for mw in lv.get('mws') or []:
            if mw['unique'] and mw['tid'] in tids and tids[mw['tid']] != li:
                dup = True
            tids.setdefault(mw['tid'], li)
    if dup:
        ctx.event('unique-type-at-two-levels')
    if ok and phases >= 2 and (beh or dup):
        ctx.nt(rc, sample=len(ctx.samples) < 3)


FAMILY_LISTS = [[], [0], [2], [0, 2], [2, 0], [0, 4], [1], [4], [6, 0]]


def stack_family():
    """complete: every combination of these middleware-type lists (unique 0 / 2, 1 derived from 0, non-unique 4, non-reorderable 6)
    on an application, an application embedded in it and the route - so that every way of naming one unique type at two or
    three levels, in leading or other positions, occurs; each stack once undisturbed and once with one deviating function"""
    from vlib import gen_config as G
    import itertools

    def mws(tids):
        return [{'tid': t, 'unique': G.TYPES[t][0], 'reorderable': G.TYPES[t][1], 'style': 'method' if t % 2 else 'func', 'provides': [],
                 'endpoint_provides': [], 'render_provides': [], 'request': [], 'endpoint': [], 'render': None, 'call': 'kw'} for t in tids]
    out = []
    for k, (l0, l1, r) in enumerate(itertools.product(FAMILY_LISTS, repeat=3)):
        cfg = {'levels': [{'res': [], 'mws': mws(l0)}, {'res': [], 'prefix': '/s1', 'mws': mws(l1)}],
               'route': {'res': [], 'url': [], 'mws': mws(r), 'ep': [], 'ep_kind': 'func', 'rn': None, 'ep_returns': 'response'},
               'build': 'list' if k % 3 else 'add'}
        out.append([cfg, 0, 'raise-before', 'route', 'none', 'response', []])
        out.append([cfg, k, MW_DEV[k % len(MW_DEV)], 'route', 'any', 'response', []])
    return out


def shards(tier, seed):
    n = 250 if tier == 'quick' else 11000
    return [{'n': n, 'family': k} for k in range(16)]


def run_shard(spec, ctx):
    for case in stack_family()[spec.get('family', 0)::16]:
        ctx.case(case)
        try:
            body(case, ctx)
        except Exception as e:
            ctx.classify_exc(e, case, 'case')
    ctx.hyp(strategy(), body, spec['n'], kind='case')


def replay(case, kind, ctx):
    body(case, ctx)
