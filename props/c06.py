"""C06 - dispatch order, methods, 404/405 (+Allow), non-breaking fall-through.  Oracle: M3."""
from vlib import dispatchmodel as M, urlmodel as U
from vlib.wsgi import call

INFO = {
    'level': 'exploration',
    'rule': ('routing tables of 1-4 routes (pattern x method set x behaviour from catalogues, one slash mode per '
             'table) built by constructor list or by a generated sequence of add(entry, index) - with or without requests served '
             'between the add() calls; a route may carry a render function (its own or render_basic), which Responses and errors an '
             'endpoint returns bypass; every table is '
             'sent the full request catalogue (12 paths x 8 methods). A request is non-trivial when >=2 routes '
             'match its path, a non-breaking error falls through, or the answer is 405; distinct_nontrivial '
             'counts distinct tables with at least one such request (request-level counts are under classes).'),
    'assumptions': ['werkzeug collapses leading slashes of PATH_INFO before dispatch (O11), mirrored by the model',
                    'Allow is compared as a set of comma-separated tokens'],
}

PATTERNS = ['/x', '/x/', '/x/<a>', '/<a>', '/<a>/<b?>', '/z/<p*>', '/x/<n:int>', '/', '/y/<q+>/', '/<a>/', '/x/<a>/<b>']
METHODS = [None, ['GET'], ['POST'], ['GET', 'POST'], ['put', 'delete'], ['HEAD'], ['OPTIONS', 'PATCH'], [], ['get'], ['Get', 'post'], ['head', 'PUT']]
BEH = ['answer', 'answer', 'raise403', 'ret404', 'nb403', 'nbret404', 'boom', 'raise500', 'ret503', 'nb500', 'nb403-shared', 'nbret404-shared']
PATHS = ['/x', '/x/', '/x/1', '/x/a', '/z', '/', '/x/a/b', '/y/1/2/', '/y/1', '//x', '/y', '/z/q/r']
REQM = ['GET', 'HEAD', 'POST', 'PUT', 'DELETE', 'OPTIONS', 'get', 'FOO']
ENTRY_KINDS = ['route', 'tuple', 'class']
RENDERS = [None, None, 'fn', 'basic']     # a route may have a render function: Responses (errors included) an endpoint returns bypass it


def _render_fn(context):
    from clastic import Response
    return Response('rendered %r' % (context,))


def render_of(name):
    if name == 'basic':
        from clastic import render_basic
        return render_basic
    return _render_fn if name == 'fn' else None


def strategy():
    from hypothesis import strategies as st
    route = st.tuples(st.sampled_from(PATTERNS), st.sampled_from(METHODS), st.sampled_from(BEH),
                      st.sampled_from(ENTRY_KINDS), st.one_of(st.none(), st.integers(-3, 5)), st.sampled_from(RENDERS))
    return st.fixed_dictionaries({
        'mode': st.sampled_from(list(U.MODES)),
        'build': st.sampled_from(['list', 'add', 'add-req']),
        'routes': st.lists(route, min_size=1, max_size=4),
    })


def build(case, after_add=None):
    """-> (app, model table).  The model table is kept with list.insert, as the statement says.
    after_add(app, table): called after every add() (build mode 'add-req': requests between the add() calls)"""
    from clastic import Application, Route
    from clastic import route as R
    mode = case['mode']
    entries, table = [], []
    for rid, rt in enumerate(case['routes']):
        pattern, methods, beh, kind, index = rt[:5]
        render = render_of(rt[5] if len(rt) > 5 else None)
        ep = M.make_endpoint(rid, beh)
        if kind == 'tuple' and not methods:
            entry = (pattern, ep) if render is None else (pattern, ep, render)
        elif kind == 'class' and methods and len(methods) == 1 and hasattr(R, methods[0].upper()):
            entry = getattr(R, methods[0].upper())(pattern, ep, render)
        else:
            entry = Route(pattern, ep, render, methods=methods)
        entries.append((entry, index))
        if case['build'] == 'list':
            table.append(M.Entry(rid, pattern, methods, beh, mode))
    if case['build'] == 'list':
        app = Application([e for e, _ in entries], slash_mode=mode)
    else:
        app = Application(slash_mode=mode)
        for rid, ((entry, index), rt) in enumerate(zip(entries, case['routes'])):
            pattern, methods, beh, kind = rt[:4]
            e = M.Entry(rid, pattern, methods, beh, mode)
            if index is None:
                app.add(entry)
                table.append(e)
            else:
                app.add(entry, index)
                table.insert(index, e)
            if after_add is not None and case['build'] == 'add-req':
                after_add(app, table)
    return app, table


def parse_allow(v):
    return set(t.strip() for t in v.split(',') if t.strip())


def check_request(ctx, app, table, path, method, case):
    exp = M.dispatch(table, path, method)
    r = call(app, path, method)
    ctx.requests += 1
    rc = dict(case, request=[path, method])
    if r.exc is not None:
        ctx.mismatch('request-raises', '%s %s raised %r' % (method, path, r.exc), rc)
        return False
    kind = exp['kind']
    ctx.event('req-' + kind)
    if kind == 'redirect':
        if r.status not in (301, 302, 303, 307, 308):
            ctx.mismatch('expected-redirect', '%s %s: expected slash redirect, got %s' % (method, path, r.status), rc)
        return False
    if r.status != exp['status']:
        ctx.mismatch('status-' + kind, '%s %s: expected %s (%s, route %s), got %s %r'
                     % (method, path, exp['status'], kind, exp.get('rid'), r.status, r.body[:80]), rc)
        return False
    if kind == 'answer':
        want = b'' if method.upper() == 'HEAD' else ('route-%s' % exp['rid']).encode()
        if r.body != want:
            ctx.mismatch('wrong-route-answered', '%s %s: expected body %r, got %r' % (method, path, want, r.body[:80]), rc)
    if kind == 'boom' or (kind == 'error' and False):
        pass
    if kind == '405':
        allow = r.header('Allow')
        if allow is None:
            ctx.mismatch('405-without-allow', '%s %s: 405 without an Allow header (expected %s)'
                         % (method, path, sorted(exp['allow'])), rc)
        elif parse_allow(allow) != exp['allow']:
            ctx.mismatch('405-wrong-allow', '%s %s: Allow %r, expected %s' % (method, path, allow, sorted(exp['allow'])), rc)
    nontriv = kind in ('405', 'fallthrough-error') or M.path_match_count(table, path) >= 2
    return nontriv


def body(case, ctx, requests=None):
    case = {'mode': case['mode'], 'build': case['build'], 'routes': [list(r) for r in case['routes']]}
    ctx.current = case
    M.reset_shared()

    def between(app_, table_):
        # the application serves requests while its table is still being built: every path, two methods
        for path in PATHS:
            for method in ('GET', 'POST'):
                check_request(ctx, app_, list(table_), path, method, case)
    app, table = build(case, after_add=between if requests is None else None)
    got = [r.pattern for r in app.routes]
    want = [e.pattern for e in table]
    if got != want:
        ctx.mismatch('routes-order', 'app.routes patterns %r, model %r' % (got, want), case)
    ctx.event('build-' + case['build'])
    nt = 0
    for path, method in (requests or [(p, m) for p in PATHS for m in REQM]):
        if check_request(ctx, app, table, path, method, case):
            nt += 1
    if nt:
        ctx.event('nontrivial-requests', nt)
        ctx.nt(case, sample=len(ctx.samples) < 2)


def shards(tier, seed):
    n = 125 if tier == 'quick' else 9000
    return [{'n': n} for _ in range(16)]


def run_shard(spec, ctx):
    ctx.hyp(strategy(), body, spec['n'], kind='table')


def replay(case, kind, ctx):
    req = case.get('request')
    body(case, ctx, requests=[tuple(req)] if req else None)
    if req:
        body(case, ctx)
