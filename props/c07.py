"""C07 - trailing-slash redirects lead to the same resource in one hop.  Oracle: M3 + redirect-follow round trip."""
import json
from urllib.parse import urlsplit, unquote_to_bytes
from vlib import dispatchmodel as M, urlmodel as U
from vlib.wsgi import call_environ, make_environ, pathinfo

INFO = {
    'level': 'exploration',
    'rule': ('(route kind, branch/leaf, methods, app/route/embedded slash-mode configuration, decoded segments with '
             'URL-significant characters, slash mutation, query string, method, script root) drawn by Hypothesis; '
             'M3 decides whether a redirect is due; a due redirect is parsed, compared and followed. Non-trivial = '
             'redirect due and (a segment contains a URL-significant or non-ASCII character, or the query is '
             'non-empty, or the method is not GET); distinct cases counted.'),
    'assumptions': ['query strings that are not URL-legal (raw non-ASCII bytes) are compared after percent-decoding',
                    'any of 301/302/303/307/308 counts as a redirect'],
}

SPECIAL = ['v', 'a?b', 'a#b', '100%', '%41', 'a b', 'a;b', 'a&b=c', 'é', 'a+b', '%2F', '?', '#', '%', 'x%zz', '中', "a'b", 'a"b', '<s>', '..', '.', '~u', 'a:b', 'a\nb', 'v\n', '\n', 'Talk:Main', 'urn:isbn:1', 'x:1', '@', 'q?x=1#f']
QUERIES = ['', 'a=1', 'a=1&b=%20x', 'q=%C3%A9', '%FF=1', 'x=a+b', 'a=b?c', 'k=%00', 'next=/x//y/', 'a=%2F%2F', 'flag', '&&', 'a=1;b=2', "q='\"", 'u=http://h/p?x=1']
RAWQ = ['q=\xe9', '\xff\xfe', 'a=\xc3\xa9', 'n=\xc3']          # raw non-ASCII bytes (latin-1 view), labelled class
ROUTES = {  # kind -> (pattern elements without trailing slash, binding names)
    'static': '/a/b',
    'single': '/a/<x>',
    'multi': '/a/<p+>',
    'two': '/<x>/<y?>',
    'root1': '/<x>',
    'typed': '/n/<k:int>/<x>',
    'root': '',          # the bare root pattern '/': a branch route; under an embedding prefix it is '<prefix>/'
}
METHOD_SETS = [None, None, ['GET'], ['POST'], ['GET', 'POST']]
REQ_METHODS = ['GET', 'GET', 'GET', 'HEAD', 'POST', 'PUT', 'DELETE', 'OPTIONS', 'PATCH']
WMODES = ['redirect', 'redirect', 'redirect', 'rewrite', 'strict']
MUTATIONS = ['canonical', 'notrail', 'double', 'double-end', 'lead-double', 'triple', 'notrail-double']


def strategy():
    from hypothesis import strategies as st
    seg = st.one_of(st.sampled_from(SPECIAL), st.text(alphabet='ab?#% ;&=é+.', min_size=1, max_size=5))
    return st.fixed_dictionaries({
        'kind': st.sampled_from(sorted(ROUTES)),
        'branch': st.sampled_from([True, True, True, False]),
        'methods': st.sampled_from(METHOD_SETS),
        'app_mode': st.sampled_from(WMODES),
        'route_mode': st.sampled_from(WMODES),
        'inherit': st.booleans(),
        'embed': st.one_of(st.none(), st.fixed_dictionaries({
            'inner_mode': st.sampled_from(WMODES), 'inherit_sub': st.booleans(),
            'prefix': st.sampled_from(['/sub', '/sub/', '/', '/p/q'])})),
        'decoy': st.booleans(),
        'front': st.sampled_from([None, None, 'method', 'nb', 'same-nb', 'same-nb']),
        'front_mode': st.sampled_from(WMODES),
        'decoy_methods': st.sampled_from([None, None, ['POST'], ['GET'], ['PUT', 'DELETE']]),
        'prime': st.sampled_from([None, None, 'PATCH', 'DELETE', 'PUT', 'OPTIONS', 'GET', 'POST']),
        # the application (and the inner one) has already served a request when the route under test is added to it
        'late': st.sampled_from([False, False, True]),
        'segs': st.lists(seg, min_size=3, max_size=3),
        'nmulti': st.integers(1, 3),
        'mutation': st.sampled_from(MUTATIONS),
        'mut_pos': st.integers(0, 6),
        'query': st.one_of(st.sampled_from(QUERIES), st.sampled_from(QUERIES), st.sampled_from(RAWQ),
                           st.text(alphabet='ab=&%20+?/;:', max_size=8).filter(_legal_query)),
        'method': st.sampled_from(REQ_METHODS),
        'script': st.sampled_from(['', '', '/mnt']),
    })


_QCHARS = set("ABCDEFGHIJKLMNOPQRSTUVWXYZabcdefghijklmnopqrstuvwxyz0123456789-._~!$&'()*+,;=:@/?%")


def _legal_query(q):
    # RFC 3986 query characters with well-formed percent escapes
    if any(c not in _QCHARS for c in q):
        return False
    i = 0
    while i < len(q):
        if q[i] == '%':
            if len(q) < i + 3 or any(c not in '0123456789abcdefABCDEF' for c in q[i + 1:i + 3]):
                return False
            i += 3
        else:
            i += 1
    return True


_REC = []


def make_ep(rid, names, nb=False):
    """recording endpoint; nb=True: records, then passes the request on with a non-breaking 404"""
    from clastic import Response, errors
    ns = {'REC': _REC, 'Response': Response, 'rid': rid, 'errors': errors}
    args = ', '.join(['request'] + names)
    exec('def ep(%s):\n    p = dict(locals()); p.pop("request")\n    REC.append((rid, p, request.path, request.query_string))\n'
         '    return %s\n' % (args, 'errors.NotFound(is_breaking=False)' if nb else 'Response("route-%s" % rid)'), ns)
    return ns['ep']


def build(case):
    from clastic import Application, Route, SubApplication
    base = ROUTES[case['kind']]
    pattern = base + ('/' if case['branch'] or not base else '')
    parsed = U.parse(pattern)
    names = [e[1] for e in parsed[0] if e[0] == 'b']
    route = Route(pattern, make_ep(0, names), methods=case['methods'], slash_mode=case['route_mode'])
    emb = case['embed']
    front = case.get('front')
    full = (emb['prefix'].rstrip('/') if emb else '') + pattern
    front_route = front_pattern = None
    if front and full.rstrip('/'):
        # a route bound *in front* whose pattern is the same but for the trailing slash (a leaf before a branch or the reverse);
        # it matches the same paths but passes them on: by its method restriction, or by a non-breaking 404
        front_pattern = full.rstrip('/') if full.endswith('/') else full + '/'
        if front == 'method':
            front_route = Route(front_pattern, make_ep(2, names), methods=['PATCH'])
        elif front == 'same-nb':
            # the *same* pattern, with a slash mode of its own (not inherited), passing every request on
            front_pattern = full
            front_route = Route(front_pattern, make_ep(2, names, nb=True), slash_mode=case.get('front_mode') or 'rewrite')
        else:
            front_route = Route(front_pattern, make_ep(2, names, nb=True))
    def warm(a):
        if case.get('late'):
            call_environ(a, make_environ('/zq-warm-up', 'GET', ''))
    if emb:
        inner = Application(slash_mode=emb['inner_mode'])
        warm(inner)
        inner.add(route, inherit_slashes=case['inherit'])
        m1 = emb['inner_mode'] if case['inherit'] else case['route_mode']
        app = Application(slash_mode=case['app_mode'])
        if front_route:
            app.add(front_route, inherit_slashes=(front != 'same-nb'))
        warm(app)
        # the same choice said in three ways (round 14): the SubApplication's own flag; a plain tuple with the choice given to
        # add(); a SubApplication carrying the *opposite* flag, overridden by what add() is told. Picked by a pure function
        # of the case (no new draw), or named by the complete family
        how = case.get('how')
        if how is None:
            how = (len(case['segs'][0]) + case['mut_pos'] + case['nmulti']) % 3
        if how == 0:
            app.add(SubApplication(emb['prefix'], inner, inherit_slashes=emb['inherit_sub']))
        elif how == 1:
            app.add((emb['prefix'], inner), inherit_slashes=emb['inherit_sub'])
        else:
            app.add(SubApplication(emb['prefix'], inner, inherit_slashes=not emb['inherit_sub']), inherit_slashes=emb['inherit_sub'])
        mode = case['app_mode'] if emb['inherit_sub'] else m1
        prefix = emb['prefix'].rstrip('/')
    else:
        app = Application(slash_mode=case['app_mode'])
        if front_route:
            app.add(front_route, inherit_slashes=(front != 'same-nb'))
        warm(app)
        app.add(route, inherit_slashes=case['inherit'])
        mode = case['app_mode'] if case['inherit'] else case['route_mode']
        prefix = ''
    table = [M.Entry(0, prefix + pattern, case['methods'], 'answer', mode)]
    if front_route:
        table.insert(0, M.Entry(2, front_pattern, ['PATCH'] if front == 'method' else None, 'answer' if front == 'method' else 'nbret404',
                                (case.get('front_mode') or 'rewrite') if front == 'same-nb' else case['app_mode']))
    if case['decoy'] and (prefix + pattern) != '/':
        # (not beside the un-embedded root route: '/<dq*>' on the path '/' in strict mode is the recorded C05 finding
        # strict-root-all-optional, which is not this property's business)
        dm = case.get('decoy_methods')
        app.add(Route('/<dq*>', make_ep(1, ['dq']), methods=dm))
        table.append(M.Entry(1, '/<dq*>', dm, 'answer', case['app_mode']))
    return app, table, prefix + pattern, mode


def make_path(case, full_pattern):
    """decoded request path: segments matching the pattern, then a slash mutation"""
    parsed = U.parse(full_pattern)
    segs, pool = [], list(case['segs'])
    for e in parsed[0]:
        if e[0] == 'l':
            segs.append(e[1])
        elif e[3] == 'int':
            segs.append('42')
        elif e[2] in ('+', '*'):
            segs.extend((pool * 2)[:case['nmulti']])
        else:
            segs.append(pool.pop(0) if pool else 'v')
    canonical = ('/' + '/'.join(segs) + ('/' if parsed[1] else '')) if segs else '/'
    mut = case['mutation']
    path = canonical
    slashes = [i for i, c in enumerate(path) if c == '/']
    pos = slashes[case['mut_pos'] % len(slashes)]
    if mut in ('notrail', 'notrail-double'):
        path = path.rstrip('/') or '/'
    if mut in ('double', 'notrail-double') and pos < len(path):
        path = path[:pos] + '/' + path[pos:]
    if mut == 'triple':
        path = path[:pos] + '//' + path[pos:]
    if mut == 'double-end':
        path = path.rstrip('/') + '//'
    if mut == 'lead-double':
        path = '/' + path
    return path, segs


def body(case, ctx):
    app, table, full_pattern, mode = build(case)
    path, segs = make_path(case, full_pattern)
    query, method, script = case['query'], case['method'], case['script']
    rc = dict(case, _path=path)
    if case.get('prime'):
        # an earlier request to the same path with another method: it must not change how this one is answered
        # (with the same query string, or with another one: nothing of the earlier request may come back in the later Location)
        pq = query if (all(ord(c) < 128 for c in query) and len(query) % 2) else 'zq_prime=1&x=%2F'
        call_environ(app, make_environ(path, case['prime'], pq, script_name=script))
        ctx.requests += 1
    del _REC[:]
    env = make_environ(path, method, query, script_name=script)
    r = call_environ(app, env)
    ctx.requests += 1
    exp = M.dispatch(table, path, method)
    legal_q = _legal_query(query)
    ctx.event('exp-' + exp['kind'])
    ctx.event('mode-' + mode)
    if r.exc is not None:
        ctx.mismatch('request-raises' + ('' if all(ord(c) < 128 for c in query) else '-rawquery'), '%s %r?%r raised %r' % (method, path, query, r.exc), rc)
        return
    if exp['kind'] != 'redirect':
        if r.status in (301, 302, 303, 307, 308):
            ctx.mismatch('unexpected-redirect', '%s %r (mode %s, pattern %s): no redirect due (%s) but got %s -> %r'
                         % (method, path, mode, full_pattern, exp['kind'], r.status, r.header('Location')), rc)
        elif r.status != exp['status']:
            ctx.mismatch('status', '%s %r (mode %s, pattern %s): expected %s got %s' % (method, path, mode, full_pattern, exp['status'], r.status), rc)
        elif exp['kind'] == 'answer':
            # (a front route that passes the request on has recorded itself before the answering one)
            if not _REC or len(_REC) > 2 or _REC[-1][0] != exp['rid'] or not any(U.same_assignment(_REC[-1][1], a) for a in exp['params']) \
                    or (len(_REC) == 2 and (_REC[0][0] != 2 or case.get('front') not in ('nb', 'same-nb'))):
                if not _d3(table, exp, path):
                    ctx.mismatch('direct-params', '%s %r: endpoint saw %r, model %r' % (method, path, _REC, exp['params'][:2]), rc)
        return
    # ---- a redirect is due
    if r.status not in (301, 302, 303, 307, 308):
        ctx.mismatch('missing-redirect', '%s %r (mode %s, pattern %s): redirect due, got %s' % (method, path, mode, full_pattern, r.status), rc)
        return
    if any(rec[0] == exp['rid'] or rec[0] != 2 for rec in _REC):      # (a front route that passed the request on may have run before)
        ctx.mismatch('redirect-after-execute', 'endpoint ran although a redirect was issued: %r' % (_REC,), rc)
    loc = r.header('Location')
    if not loc:
        ctx.mismatch('no-location', 'redirect without Location', rc)
        return
    u = urlsplit(loc)
    canonical = exp['location']
    if (u.scheme, u.netloc) != ('http', 'example.test'):
        ctx.mismatch('location-host', 'Location %r changes scheme/host' % loc, rc)
    want_path = script + canonical
    try:
        got_path = unquote_to_bytes(u.path).decode('utf8')
    except UnicodeDecodeError:
        got_path = None
    if got_path != want_path or u.fragment:
        ctx.mismatch('location-path', '%s %r -> Location %r decodes to path %r (fragment %r), expected %r'
                     % (method, path, loc, got_path, u.fragment, want_path), rc)
        return
    qraw = loc.split('?', 1)[1] if '?' in loc else ''
    qraw = qraw.split('#', 1)[0]
    if legal_q:
        if qraw != query:
            ctx.mismatch('location-query', 'query %r became %r' % (query, qraw), rc)
            return
    elif unquote_to_bytes(qraw) != unquote_to_bytes(query.encode('latin1')):
        ctx.mismatch('location-query-raw', 'raw query %r became %r' % (query, qraw), rc)
        return
    # ---- follow it: one hop, same route, same parameters
    del _REC[:]
    p2 = unquote_to_bytes(u.path).decode('latin1')
    if script and p2.startswith(script):
        p2 = p2[len(script):]
    env2 = make_environ('/', method, qraw, script_name=script, raw_path_info=p2)
    r2 = call_environ(app, env2)
    ctx.requests += 1
    exp2 = M.dispatch(table, canonical, method)
    if r2.exc is not None or r2.status != (exp2['status'] if exp2['kind'] != 'redirect' else 200):
        ctx.mismatch('follow-not-200', 'following %r gave %s %r (the route answers %s there)' % (loc, r2.status, r2.exc, exp2.get('status')), rc)
        return
    # the route that issued the redirect runs at the canonical path, with the parameters it would have had (only a front route that
    # passes requests on may run before it; it may itself pass the request on - then the model says who answers in the end)
    me = [e for e in table if e.rid == exp['rid']][0]
    mine = M.dispatch([M.Entry(me.rid, me.pattern, me.methods, 'answer', me.mode)], canonical, method).get('params') or []
    hit = [rec for rec in _REC if rec[0] == exp['rid']]
    if len(hit) != 1 or not any(U.same_assignment(hit[0][1], a) for a in mine) or hit[0][2] != canonical \
            or (exp2['kind'] == 'answer' and _REC[-1][0] != exp2['rid']) or len(_REC) > 2 \
            or any(rec[0] != 2 for rec in _REC[:_REC.index(hit[0])]):
        ctx.mismatch('follow-other-resource', 'following %r reached %r, expected route %s with %r at %r (answered in the end by %s)'
                     % (loc, _REC, exp['rid'], mine[:1], canonical, exp2.get('rid')), rc)
        return
    ctx.event('redirect-followed')
    if any(any(ch in s for ch in '?#%;&= +') or any(ord(ch) > 127 for ch in s) for s in segs) or query or method != 'GET':
        ctx.nt(rc, sample=len(ctx.samples) < 3)


def _d3(table, exp, path):
    # multi binding + repeated slash: recorded under C05 (values contain empty pieces); not re-reported here
    e = [t for t in table if t.rid == exp['rid']][0]
    return '//' in M.seen_path(path) and any(x[0] == 'b' and x[2] in ('*', '+') for x in e.parsed[0])


def shards(tier, seed):
    n = 600 if tier == 'quick' else 36000
    return [{'n': n} for _ in range(16)] + [{'part': 'styles'}]


def style_cases():
    """complete: way of saying whether the embedded routes inherit x inherit or not (embedding, inner route) x slash mode of
    the embedding application / the embedded one / the route x branch route reached canonically, without its slash, with a
    doubled slash x GET / POST"""
    modes = ['redirect', 'rewrite', 'strict']
    out = []
    for how in (0, 1, 2):
        for inherit_sub in (True, False):
            for inherit in (True, False):
                for app_mode in modes:
                    for inner_mode in modes:
                        for route_mode in modes:
                            for mutation in ('canonical', 'notrail', 'double'):
                                for method in ('GET', 'POST'):
                                    out.append({'kind': 'single', 'branch': True, 'methods': None, 'app_mode': app_mode, 'route_mode': route_mode,
                                                'inherit': inherit, 'embed': {'inner_mode': inner_mode, 'inherit_sub': inherit_sub, 'prefix': '/sub'},
                                                'decoy': False, 'front': None, 'front_mode': 'redirect', 'decoy_methods': None, 'prime': None,
                                                'late': False, 'segs': ['s1', 's2', 's3'], 'nmulti': 1, 'mutation': mutation, 'mut_pos': 1,
                                                'query': 'a=1', 'method': method, 'script': '', 'how': how})
    return out


def run_shard(spec, ctx):
    if spec.get('part') == 'styles':
        ctx.exhaustive = True
        ctx.loop(style_cases(), body, kind='case', max_sigs=8)
        return
    ctx.hyp(strategy(), body, spec['n'], kind='case')


def replay(case, kind, ctx):
    case = dict(case)
    case.pop('_path', None)
    body(case, ctx)
