"""C20 - the Flaw failsafe page works for any start-up error text.
Oracle: html.parser validity predicate + "type and message named separately" for real tracebacks."""
import sys, traceback, types
from html.parser import HTMLParser
from vlib.wsgi import call

INFO = {
    'level': 'exploration',
    'rule': ('error texts: real tracebacks produced in the harness (catalogue of exception types incl. dotted custom '
             'classes and messages with colons / markup / non-ASCII, stack depth 1-6, frames with and without source '
             'lines), SyntaxError reports with and without the Traceback header, truncated and concatenated tracebacks, '
             'random printable / non-printable text, markup, ashes/dust template syntax, empty, None, bytes; monitored '
             'file lists None / empty / long / names with markup; any path and method. Non-trivial = the text contains '
             'markup or template syntax, or is a real traceback, or is not a str; distinct cases counted.'),
    'assumptions': ['"contains the given error text" is asserted for str inputs after HTML-unescaping the page\'s character data',
                    'for None / bytes only "constructs, 200, no markup introduced" is asserted',
                    'paths under /clastic_assets/ (the page\'s own static assets) are not requested'],
}

MARK = 'zq9'
VOID = {'link', 'br', 'hr', 'meta', 'img', 'input'}


class Page(HTMLParser):
    def __init__(self):
        HTMLParser.__init__(self, convert_charrefs=True)
        self.bad = []
        self.data = []
        self.stack = []          # [tag, own-text-pieces]
        self.own = []            # (tag, own text)

    def handle_starttag(self, tag, attrs):
        if MARK in tag:
            self.bad.append('tag <%s>' % tag)
        for k, v in attrs:
            if MARK in (k or '') or MARK in (v or ''):
                self.bad.append('attribute %s=%r on <%s>' % (k, v, tag))
        if tag not in VOID:
            self.stack.append([tag, []])

    def handle_endtag(self, tag):
        for i in range(len(self.stack) - 1, -1, -1):
            if self.stack[i][0] == tag:
                for t, pieces in self.stack[i:]:
                    self.own.append((t, ''.join(pieces)))
                del self.stack[i:]
                break

    def handle_data(self, d):
        self.data.append(d)
        if self.stack:
            self.stack[-1][1].append(d)

    def handle_comment(self, d):
        if MARK in d:
            self.bad.append('comment')

    def handle_pi(self, d):
        if MARK in d:
            self.bad.append('processing instruction')

    def handle_decl(self, d):
        if MARK in d:
            self.bad.append('declaration')

    def unknown_decl(self, d):
        if MARK in d:
            self.bad.append('unknown declaration')


FNAMES = [None, None, '<zq9string>', '</title><zq9fn x="1">', '/srv/a&b/"<zq9q>".py', "<zq9stdin>'", '{zq9tpl}/{#x}{/x}.py', '/srv/é/<zq9u>.py']


def make_traceback(exc_kind, msg, depth, with_source, fname_kind=0):
    """a real traceback text produced by the running interpreter"""
    mod = types.ModuleType('zq_pkg.zq_mod')

    class Err(Exception):
        pass
    Err.__module__ = 'zq_pkg.zq_mod'
    Err.__qualname__ = 'CustomErr'
    excs = {'ValueError': ValueError, 'KeyError': KeyError, 'RuntimeError': RuntimeError, 'Custom': Err,
            'OSError': OSError, 'ZeroDivisionError': ZeroDivisionError, 'ImportError': ImportError, 'NameError': NameError,
            'UnicodeError': UnicodeError, 'AssertionError': AssertionError}
    src = 'def f0(e):\n    raise e  # <zq9c0> & "q" {zq9c1}\n'
    for i in range(1, depth):
        src += 'def f%d(e):\n    return f%d(e)\n' % (i, i - 1)
    # the file name of the generated frames: plain, or carrying markup / template syntax (as '<string>' and '<stdin>' do)
    hostile = FNAMES[fname_kind % len(FNAMES)]
    fname = hostile or ('/tmp/zq_src_%d.py' % depth if not with_source else '<zq9 generated %d>' % depth)
    ns = {}
    code = compile(src, fname, 'exec')
    exec(code, ns)
    if with_source:
        import linecache
        linecache.cache[fname] = (len(src), None, src.splitlines(True), fname)
    try:
        ns['f%d' % (depth - 1)](excs[exc_kind](msg))
    except Exception:
        return traceback.format_exc()


def syntax_report(code_text, header):
    try:
        compile(code_text, 'zq_broken.py', 'exec')
    except SyntaxError:
        full = traceback.format_exc()
    else:
        return None
    if header:
        return full
    lines = full.splitlines(True)
    # what the interpreter prints for a broken main script: no header, starts at the File line of the report
    idx = max(i for i, l in enumerate(lines) if l.lstrip().startswith('File "zq_broken.py"'))
    return ''.join(lines[idx:])


def expected_type_msg(tb_text):
    """(type, message) if the text is a standard traceback ending in 'Type: message' (single line), else None"""
    lines = tb_text.rstrip('\n').splitlines()
    if len(lines) < 2:
        return None
    last = lines[-1]
    if ':' not in last:
        return None
    typ, _, msg = last.partition(':')
    if not typ or len(typ.split()) != 1 or typ != typ.strip() or not msg.strip():
        return None
    return typ, msg.strip()


NASTY = ['<zq9a>', '"><zq9b x="', '</pre><zq9c>', '</title><zq9d onload=x>', '<!--zq9e-->', '{#zq9f}{/zq9f}', '{@iterate key=x}{/iterate}',
         '{tb_str|s}', '{>zq9g/}', '{~lb}zq9h{~rb}', '{{zq9i}}', '${zq9j}', '&lt;zq9k&gt;', '&amp;', '<script>zq9l()</script>', 'plain: words',
         'é☃中', '\x00\x01\x02', '\x1b[0m', 'a\tb', '\r\n', '%s', '{', '}', '{}', '{.}', '{#mon_files}{.}{/mon_files}', '{parsed_err.exc_type}']


def strategy():
    from hypothesis import strategies as st
    msg = st.one_of(st.sampled_from(['boom', 'a: b', 'key: <zq9m>', 'é☃ failed', 'x' * 200, 'no module named <zq9n>', 'it\'s "quoted"',
                                     '{zq9o}', 'a  b', '1', '<b>zq9p</b>: {#x}{/x}']),
                    st.text(alphabet='ab :<>&{}#/"\'é9zq', min_size=1, max_size=12).map(lambda s: s.strip() or 'm'))
    real = st.fixed_dictionaries({'kind': st.just('real'),
                                  'exc': st.sampled_from(['ValueError', 'KeyError', 'RuntimeError', 'Custom', 'OSError', 'ImportError',
                                                          'NameError', 'UnicodeError', 'AssertionError', 'ZeroDivisionError']),
                                  'msg': msg, 'depth': st.integers(1, 6), 'source': st.booleans(), 'fname': st.integers(0, len(FNAMES) - 1),
                                  'mangle': st.sampled_from(['none', 'none', 'none', 'truncate-head', 'truncate-tail', 'double', 'prefix-junk',
                                                             'crlf', 'trailing-blank', 'leading-blank',
                                                             # a last line whose "type" part is template syntax, balanced or not
                                                             'tpl-open', 'tpl-cond', 'tpl-close', 'tpl-ref'])})
    syn = st.fixed_dictionaries({'kind': st.just('syntax'), 'code': st.sampled_from(['x = (', 'def f(:\n  pass', 'a b', 'if x\n  y', '"unterminated',
                                                                                     'x = <zq9q>', '  indent\nx']),
                                 'header': st.booleans()})
    free = st.fixed_dictionaries({'kind': st.just('text'),
                                  'text': st.one_of(st.sampled_from(NASTY + ['']), st.lists(st.sampled_from(NASTY), min_size=1, max_size=4).map('\n'.join),
                                                    st.text(max_size=40), st.text(alphabet='{}#/<>&"\'@~:.|zq9 \n', max_size=30))})
    other = st.fixed_dictionaries({'kind': st.sampled_from(['none', 'bytes']), 'text': st.sampled_from(['', 'Traceback (most recent call last):\nValueError: <zq9r>', '<zq9s>', '\xff\xfe'])})
    import os as _os, werkzeug as _wz, clastic as _cl, json as _js
    site = [_os.__file__, _wz.__file__, _cl.__file__, _os.path.join(_os.path.dirname(_cl.__file__), 'route.py'), _js.__file__]
    # names that merely share a string prefix with a library directory without lying inside it, and the directories themselves
    for d_ in (_os.path.dirname(_cl.__file__), _os.path.dirname(_wz.__file__), _os.path.dirname(_os.__file__)):
        site += [d_ + '_site/settings.py', d_ + '-demo.py', d_ + '-extras/plugin.py', d_, d_ + '/', d_ + '.py']
    files = st.one_of(st.none(), st.just([]),
                      st.lists(st.one_of(st.sampled_from(site), st.sampled_from(['/app/main.py', '/srv/<zq9t>.py', 'a.py'])), min_size=1, max_size=5, unique=True),
                      st.lists(st.one_of(st.sampled_from(['/app/main.py', 'a.py', '/srv/<zq9t>.py', '/x/"zq9u".py', "/y/'zq9v'.py", '/é/中.py', '/w/{zq9w}.py',
                                                          '/usr/lib/python3/os.py', '']),
                                         st.text(alphabet='abc/._<>&"{}zq9', min_size=1, max_size=15)), max_size=6),
                      # different spellings of one file, names differing by case / suffix / a trailing slash, exact duplicates
                      st.lists(st.sampled_from(['/srv/app/main.py', '/srv/app//main.py', '/srv/app/./main.py', '/srv/app/x/../main.py', '/srv/app/main.pyc',
                                                '/SRV/app/main.py', 'pkg/mod.py', './pkg/mod.py', 'pkg/mod.py/', 'x', 'x/', 'X', './x', 'pkg\\mod.py',
                                                '/srv/app/main.py~', '//srv/app/main.py']), min_size=2, max_size=6),
                      st.lists(st.integers(0, 10 ** 6).map(lambda i: '/proj/mod_%d.py' % i), min_size=50, max_size=200))
    path = st.one_of(st.sampled_from(['/', '/x', '/a/b/c', '/favicon.ico', '//', '/x/', '/<zq9x>', '/clastic_asset', '/é',
                                      # under the failsafe page's own asset prefix, but not an asset: missing, refused, a directory
                                      '/clastic_assets/../flaw.py', '/clastic_assets/no-such.css', '/clastic_assets/..hidden',
                                      '/clastic_assets/css/../../x', '/clastic_assets', '/clastic_assets/', '/clastic_assets/../../etc/passwd',
                                      '/clastic_assets//x',
                                      # control characters in the decoded path (D19: '/\n' used to be answered 302)
                                      '/\n', '/a/b\n', '/\n/', '/a\nb', '/x\r', '/\t', '/a\x00b', '/\x0b\x0c', '/a\x85b/\u2028', '/clastic_assets/x\ny', '/\n\n']),
                     st.text(alphabet='ab/.<>9zq%', max_size=10).map(lambda s: '/' + s).filter(lambda p: not p.lstrip('/').startswith('clastic_assets')))
    return st.tuples(st.one_of(real, real, syn, free, free, other), files, path, st.sampled_from(['GET', 'GET', 'POST', 'PUT', 'DELETE']))


def materialise(spec):
    k = spec['kind']
    if k == 'real':
        tb = make_traceback(spec['exc'], spec['msg'], spec['depth'], spec['source'], spec.get('fname', 0))
        m = spec['mangle']
        lines = tb.splitlines(True)
        if m == 'truncate-head':
            tb = ''.join(lines[2:])
        elif m == 'truncate-tail':
            tb = ''.join(lines[:-1])
        elif m == 'double':
            tb = tb + '\nDuring handling of the above exception, another exception occurred:\n\n' + tb
        elif m == 'prefix-junk':
            tb = 'some log line <zq9y>\n' + tb
        elif m == 'crlf':
            tb = tb.replace('\n', '\r\n')
        elif m == 'trailing-blank':
            tb = tb + '\n\n'
        elif m == 'leading-blank':
            tb = '\n\n' + tb
        elif m.startswith('tpl-'):
            tb = tb + {'tpl-open': '{#zq9items}: <li>{name}</li>', 'tpl-cond': '{?zq9user}hello{:else}anonymous{/zq9user}: x',
                       'tpl-close': '{/zq9x}: y', 'tpl-ref': '{zq9t|s}{>zq9p/}: {@eq key=a value=b}z{/eq}'}[m] + '\n'
        standard = m in ('none', 'crlf', 'leading-blank', 'double')
        return tb, standard
    if k == 'syntax':
        return syntax_report(spec['code'], spec['header']) or 'SyntaxError: none', True
    if k == 'none':
        return None, False
    if k == 'bytes':
        return spec['text'].encode('latin1'), False
    return spec['text'], False


def body(case, ctx):
    spec, files, path, method = case
    rc = [spec, files, path, method]
    ctx.current = rc
    text, standard = materialise(spec)
    from clastic import flaw
    files_in = None if files is None else list(files)
    try:
        app = flaw.create_app(text, files_in)
    except Exception as e:
        ctx.mismatch('create-app-raises', 'create_app(%r, %r) raised %r' % (text if text is None else text[:80], files, e), rc)
        return
    try:
        path.encode('utf8')
    except UnicodeEncodeError:
        path = '/'
    r = call(app, path, method)
    ctx.requests += 1
    what = '%s %r on flaw app for %s' % (method, path, spec['kind'])
    if r.exc is not None or r.status != 200:
        ctx.mismatch('not-200', '%s: %s %r' % (what, r.status, r.exc), rc)
        return
    try:
        page = r.body.decode('utf8')
    except UnicodeDecodeError as e:
        ctx.mismatch('page-not-utf8', '%s: %r' % (what, e), rc)
        return
    p = Page()
    p.feed(page)
    p.close()
    if p.bad:
        ctx.mismatch('markup-introduced', '%s: input introduced markup: %s' % (what, p.bad[:3]), rc)
        return
    data = ''.join(p.data)
    ctx.event('kind-' + spec['kind'])
    if isinstance(text, str):
        if text not in data and text.replace('\r\n', '\n') not in data.replace('\r\n', '\n'):
            ctx.mismatch('error-text-missing', '%s: the page does not contain the error text %r' % (what, text[:120]), rc)
            return
        listed = set(t.strip() for _, t in p.own)
        for fn in files or []:
            if fn and fn not in data:
                ctx.mismatch('file-name-missing', '%s: monitored file %r not on the page' % (what, fn), rc)
                return
            # ... as an entry of its own, not merely as part of a longer name ('x' inside 'x/')
            if fn and fn == fn.strip() and fn.isprintable() and fn not in listed:
                ctx.mismatch('file-name-not-listed', '%s: monitored file %r is not an entry of the page (entries %r)'
                             % (what, fn, sorted(listed & set(f.strip() for f in files))[:6]), rc)
                return
        if files and len(set(files)) < len(files):
            ctx.event('files-with-duplicates')
        if standard:
            tm = expected_type_msg(text.replace('\r\n', '\n'))
            if tm:
                typ, msg = tm
                owns = [t.strip() for _, t in p.own]
                if typ not in owns or msg not in owns:
                    ctx.mismatch('type-message-not-named', '%s: traceback ends in %r but no element is exactly the type %r and none exactly the message %r'
                                 % (what, text.rstrip().splitlines()[-1][:100], typ, msg), rc)
                    return
                ctx.event('type-and-message-named')
    nontrivial = spec['kind'] in ('real', 'syntax', 'none', 'bytes') or any(c in (text or '') for c in '<>&{}')
    if nontrivial:
        ctx.nt(rc, sample=len(ctx.samples) < 3)


# ---- coverage-guided byte-level campaign on the error text (thorough tier; vlib/atheris_target.py)
FUZZ_MAX_LEN = 600


def fuzz_prepare(ctx):
    pass


def fuzz_seeds(ctx):
    return [make_traceback('ValueError', 'boom: <zq9a>', 2, True).encode('utf8'), make_traceback('Custom', 'x', 1, False).encode('utf8'),
            (syntax_report('x = (', False) or '').encode('utf8'), b'{#x}{/x}<zq9b>', b'']


def fuzz_one(data, ctx):
    if data[:1] == b'\x00':
        text, kind = data[1:], 'bytes'
        spec = {'kind': 'bytes', 'text': text.decode('latin1')}
    else:
        spec = {'kind': 'text', 'text': data.decode('utf8', 'ignore')}
    body([spec, None if len(data) % 3 else ['/app/<zq9f>.py'], '/', 'GET'], ctx)
    return True


def shards(tier, seed):
    n = 200 if tier == 'quick' else 12000
    out = [{'n': n} for _ in range(16 if tier == 'quick' else 15)]
    if tier != 'quick':
        out.append({'part': 'atheris', 'runs': 40000})     # ~150 exec/s: every input builds a whole failsafe application
    return out


def run_shard(spec, ctx):
    if spec.get('part') == 'atheris':
        from vlib.shard import run_atheris
        run_atheris(ctx, 'C20', spec['runs'])
        return
    ctx.hyp(strategy(), body, spec['n'], kind='case')


def replay(case, kind, ctx):
    if isinstance(case, dict) and 'bytes' in case:
        fuzz_one(case['bytes'].encode('latin1'), ctx)
        return
    body(case, ctx)
