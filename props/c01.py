"""C01 - bind-time dependency check is sound and complete.  Oracle: M1 (vlib.inject.predict)."""
from vlib import inject as I, injcheck as J

INFO = {
    'level': 'exploration',
    'rule': ('G1 configurations (0-4 middlewares over application and route level, any subset of request/endpoint/'
             'render functions, signatures with required/defaulted/keyword-only/positional-only parameters over '
             '{a..e} + built-ins, provides tuples, resources, 0-3 URL bindings, 9 callable kinds, constructor list or '
             'add()); M1 predicts accept/reject; accepted ones are sent a matching request, an unknown path and a '
             'wrong method. Non-trivial = a provided value is consumed by a later function, or the model rejects '
             'for a reason other than "no source offers the name at all"; distinct configurations counted.'),
    'assumptions': ['cyclic provide graphs are exempt from the iff (quantifier text); detected by the harness\'s own DFS',
                    'exception messages are not compared; *args/**kwargs, partials and classes are not generated'],
}


def strategy():
    from vlib import gen_config as G
    from hypothesis import strategies as st
    # mostly the quantifier's shape (application-level + route-level); one case in five also embeds the application,
    # where every intermediate construction has to be satisfiable on its own
    return st.one_of(G.config(max_levels=1), G.config(max_levels=1), G.config(max_levels=1), G.config(max_levels=1),
                     G.config(max_levels=3, free_p=0.06))


def classify_reject(cfg, rej):
    if rej.kind != 'unsat':
        return rej.kind
    offered = set(I.RESERVED)
    for lv in cfg['levels']:
        offered |= set(lv.get('res') or [])
    offered |= set(cfg['route'].get('res') or []) | set(cfg['route'].get('url') or [])
    for mw in I.all_mws(cfg):
        for _, pl in I.PHASES:
            offered |= set(mw.get(pl) or ())
    missing = getattr(rej, 'missing', None) or []
    return 'unsat-misplaced' if any(n in offered for _, n in missing) else 'unsat-absent'


def body(cfg, ctx, sources=False):
    rc = cfg
    import json as _json
    if 'siblings' not in cfg and len(_json.dumps(cfg, sort_keys=True)) % 3 == 0:
        # deterministic in the case: every third configuration also has a (valid) sibling route with a middleware of its own
        cfg = dict(cfg, siblings=[I.sibling_for(cfg)])
        ctx.event('with-sibling-route')
    if len(_json.dumps(cfg, sort_keys=True)) % 4 == 1:
        # every fourth configuration: the Route (and every inner application) has been bound into an unrelated,
        # resource-rich application before - the decision must not depend on that earlier binding
        cfg = dict(cfg, prebound=True)
        ctx.event('bound-elsewhere-before')
    if len(_json.dumps(cfg, sort_keys=True)) % 5 == 2 and any(True for _ in I.all_mws(cfg)):
        # every fifth configuration: the middleware functions declare all their parameters - `next` first - keyword-only
        import copy as _copy
        cfg = _copy.deepcopy(cfg)
        for m_ in I.all_mws(cfg):
            if not m_.get('flags'):
                m_['kwnext'] = True
        ctx.event('middleware-functions-all-keyword-only')
    try:
        plan = I.predict(cfg)
        rej = None
    except I.Reject as r:
        plan, rej = None, r
    try:
        built = I.build(cfg)
        exc = None
    except Exception as e:
        built, exc = None, e
    posonly = I.has_posonly(cfg)
    if rej is None and exc is not None:
        if plan.cyclic:
            ctx.event('cyclic-exempt')
            return
        if posonly:
            ctx.event('posonly-rejected-at-construction')
            return
        ctx.mismatch('spurious-reject', 'model accepts, construction raised %r' % exc, rc)
        return
    if rej is not None:
        cls = classify_reject(cfg, rej)
        ctx.event('reject-' + cls)
        if exc is None:
            ctx.mismatch('accepted-' + rej.kind, 'model rejects (%s) but the Application was constructed' % rej, rc)
            return
        ok_types = I.EXC_FOR[rej.kind] + ((RuntimeError,) if getattr(rej, 'cyclic', False) else ())
        if not isinstance(exc, ok_types):
            ctx.mismatch('wrong-exception-' + rej.kind, 'model rejects (%s); construction raised %r, expected %s'
                         % (rej, exc, [t.__name__ for t in ok_types]), rc)
            return
        if cls != 'unsat-absent':
            ctx.nt(cfg, sample=len(ctx.samples) < 2)
        return
    ctx.event('accepted')
    ctx.event('levels-%d' % len(cfg['levels']))
    ctx.event('kind-' + cfg['route'].get('ep_kind', 'func'))
    if J.kw_only(cfg):
        ctx.event('accepted-with-kwonly')
    obs = J.serve(ctx, cfg, built, plan, rc, sources=sources, n_requests=2 if sources else 1)
    rebind_elsewhere(ctx, cfg, built, rc)
    consumed = any(plan.route.source(fid, n)[0] == 'provided'
                   for fid in plan.route.av for n in _names(plan.route, fid))
    if consumed:
        ctx.event('provided-consumed')
        ctx.nt(cfg, sample=len(ctx.samples) < 4)
    return obs


def rebind_elsewhere(ctx, cfg, built, rc):
    """the very same Route object, now bound into a second, bare application (no resources, no middlewares): the
    accept/reject decision must be taken afresh for that context, whatever was decided for the first one"""
    from clastic import Application
    from clastic.errors import ErrorHandler
    if cfg.get('siblings') or I.has_posonly(cfg):
        return
    cfg2 = {'levels': [{'res': [], 'mws': [], 'prefix': '/s'}], 'route': cfg['route'], 'build': 'list'}
    try:
        plan2, rej2 = I.predict(cfg2), None
    except I.Reject as r:
        plan2, rej2 = None, r
    try:
        app2, exc2 = Application([built.route], error_handler=ErrorHandler(reraise_uncaught=True)), None
    except Exception as e:
        app2, exc2 = None, e
    if rej2 is not None:
        ctx.event('second-binding-rejected')
        if exc2 is None:
            ctx.mismatch('second-binding-accepted-' + rej2.kind, 'the same Route bound into a bare second application: model rejects (%s) but it was constructed' % rej2, rc)
        return
    if exc2 is not None:
        if not plan2.cyclic:
            ctx.mismatch('second-binding-spurious-reject', 'the same Route bound into a bare second application raised %r' % exc2, rc)
        return
    ctx.event('second-binding-accepted')
    b2 = I.Built()
    b2.app, b2.world, b2.prefix, b2.pattern, b2.route = app2, built.world, '', '/r' + ''.join(I.url_binding(cfg['route'], u) for u in cfg['route'].get('url') or []), built.route
    J.serve(ctx, cfg2, b2, plan2, rc, with_null=False)


def _names(view, fid):
    try:
        sig = view.sig_of(fid)
    except KeyError:
        return []
    return I.names_of(sig or [])


def shards(tier, seed):
    n = 200 if tier == 'quick' else 20000
    return [{'n': n} for _ in range(16)]


def run_shard(spec, ctx):
    ctx.hyp(strategy(), body, spec['n'], kind='cfg')
    if 'positional-only-parameter' in ctx.known_sigs and ctx.shard == 0:
        rep = {'levels': [{'res': [], 'mws': []}], 'route': {'url': ['a'], 'ep': [['a', 'posonly', False]], 'rn': None,
                                                            'ep_kind': 'func', 'res': [], 'mws': []}, 'build': 'list'}
        ctx.current = rep
        before = ctx.known['positional-only-parameter']
        try:
            body(rep, ctx)
        except Exception:
            pass
        if ctx.known['positional-only-parameter'] == before:
            ctx.note('recorded finding positional-only-parameter no longer reproduces on its representative')


def replay(case, kind, ctx):
    body(case, ctx)
