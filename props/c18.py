"""C18 - the meta application never reveals secrets and always renders.
Oracle: token search (raw, HTML-unescaped, JSON-decoded) + visibility clauses parsed from both views."""
import html, json, re
from vlib.wsgi import call

INFO = {
    'level': 'exploration',
    'rule': ('host applications with generated resources (names with "secret" as prefix / infix / suffix or without it; values: '
             'str, bytes, numbers, nested containers, objects whose repr embeds the value, objects whose repr raises - every '
             'secret value embeds a unique token), routes with every endpoint kind, static routes, embedded applications, '
             'middlewares incl. SignedCookieMiddleware with a known key, MetaApplication mounted at a generated prefix or '
             'embedded two levels deep; both views (HTML, JSON) requested. Non-trivial = at least one secret and one non-secret '
             'resource, or a failing repr; distinct host configurations counted.'),
    'assumptions': ['only lower-case "secret" in the resource *name* is claimed by the statement; upper/mixed case is not asserted',
                    'when some repr fails the resource section becomes an inline error report: then only "200" and "no secret anywhere" are asserted'],
}

KEY = 'KEYzq9-cookie-signing-key-5b1e'


class ReprEmbeds(object):
    def __init__(self, v):
        self.v = v

    def __repr__(self):
        return '<ReprEmbeds %s>' % self.v

    def __call__(self):
        # the object can also serve as an endpoint (round 14): a secret resource that is routed as well
        from clastic import Response
        return Response('dual')


class ReprRaises(object):
    def __init__(self, v):
        self.v = v

    def __repr__(self):
        raise RuntimeError('no repr for you (%s)' % self.v)


class ReprRaisesBare(object):
    def __init__(self, v):
        self.v = v

    def __repr__(self):
        raise NotImplementedError


class ReprRaisesKeyError(object):
    def __init__(self, v):
        self.v = v

    def __repr__(self):
        raise KeyError()


class BadStr(object):
    def __init__(self, v):
        self.v = v

    def __str__(self):
        raise ValueError('no str')

    def __repr__(self):
        return 'BadStr(%s)' % self.v


def make_value(kind, token):
    return {'str': token, 'bytes': token.encode(), 'int': int(''.join(str(ord(c) % 10) for c in token[:18])), 'float': 1.5,
            'list': [1, token, {'k': token}], 'dict': {'inner': [token, 2], token: 1}, 'tuple': (token, (token,)),
            'reprobj': ReprEmbeds(token), 'reprraises': ReprRaises(token), 'reprraises-bare': ReprRaisesBare(token),
            'reprraises-keyerror': ReprRaisesKeyError(token), 'long': token + 'x' * 200, 'markup': '<b>%s</b>&"' % token,
            'badstr': BadStr(token), 'none': None, 'rawbytes': b'\xff\xfe' + token.encode() + b'\x80', 'bytearray': bytearray(token.encode()), 'nested': {'a': {'b': {'c': [token] * 3}}}, 'set': {token}}[kind]


NAMES_SECRET = ['secret', 'secret_key', 'api_secret', 'my_secret_token', 'xsecretx', 'db_secret_', 'secrets', 'client-secret', 'a.secret.b',
                # long names: 'secret' at the very end, far inside, straddling any plausible display width
                'payment_gateway_webhook_signing_shared_secret', 'n' * 60 + '_secret', 'a_very_long_resource_name_whose_secr' + 'et_part_straddles',
                'x' * 34 + 'secret' + 'y' * 30, 'secret' + 'z' * 80]
NAMES_PLAIN = ['db', 'config', 'name', 'iterable', 'start', 'api_key_id', 'motd', 'k', 'res<zq9m>', 'sec_ret', 'secre', 'ecret',
               # names the meta application uses for resources of its own: a host may use them too
               'page_title', '_meta_start_time',
               'a_long_plain_resource_name_that_is_wider_than_any_column_' + 'w' * 30]
VALUE_KINDS = ['str', 'bytes', 'int', 'list', 'dict', 'tuple', 'reprobj', 'long', 'markup', 'nested', 'set', 'badstr', 'none', 'float',
               'rawbytes', 'bytearray']
ENDPOINTS = ['func', 'lambda', 'method', 'callable', 'static', 'classm', 'decorated', 'builtin', 'uses-resource', 'doc',
             'defaults', 'defaults-kwonly', 'defaults-mixed']


def strategy():
    from hypothesis import strategies as st
    res = st.tuples(st.one_of(st.sampled_from(NAMES_SECRET), st.sampled_from(NAMES_PLAIN)),
                    st.one_of(st.sampled_from(VALUE_KINDS), st.sampled_from(VALUE_KINDS), st.sampled_from(['reprraises', 'reprraises-bare', 'reprraises-keyerror'])))
    return st.fixed_dictionaries({
        'resources': st.lists(res, max_size=6, unique_by=lambda r: r[0]),
        'endpoints': st.lists(st.sampled_from(ENDPOINTS), max_size=5),
        'static': st.booleans(),
        'subapp': st.sampled_from([None, 'plain', 'with-resources']),
        'mws': st.lists(st.sampled_from(['cookie', 'cookie-named', 'cookie-sub', 'gzip', 'stats', 'getparam', 'ctx', 'custom', 'set-provides', 'list-provides', 'bad-repr']),
                        max_size=3, unique=True),
        'mount': st.sampled_from(['/meta', '/_meta/', '/', '/a/b/meta', '/m<zq9>']),
        'depth': st.sampled_from([0, 0, 1, 2]),
        'debug': st.booleans(),
    })


def build(case):
    from clastic import Application, Route, Response, StaticApplication, StaticFileRoute, Middleware
    from clastic.meta import MetaApplication
    from clastic.render import render_basic
    from clastic.decorators import clastic_decorator
    from clastic.middleware import GzipMiddleware, GetParamMiddleware, SimpleContextProcessor
    from clastic.middleware.stats import StatsMiddleware
    from clastic.middleware.cookie import SignedCookieMiddleware
    import functools, os
    tokens, resources = {}, {}
    for i, (name, kind) in enumerate(case['resources']):
        tok = 'TOKzq9%02dx%s' % (i, 'q7' * 4)
        tokens[name] = (tok, kind)
        resources[name] = make_value(kind, tok)
    if any(e == 'builtin' for e in case['endpoints']):
        resources.setdefault('iterable', [1, 2, 3])
        resources.setdefault('start', 0)
        for n in ('iterable', 'start'):
            if n in tokens:
                del tokens[n]
                resources[n] = [1, 2, 3] if n == 'iterable' else 0

    class C(object):
        def method(self, request):
            return Response('m')

        def __call__(self, request):
            return Response('c')

        @staticmethod
        def sm():
            return Response('s')

        @classmethod
        def cm(cls):
            return Response('k')

    def deco(f):
        @functools.wraps(f)
        def g(*a, **kw):
            return f(*a, **kw)
        return g

    def func(request):
        return Response('f')

    def doc_ep():
        """Docstring with <zq9doc> markup & a link http://example.test/?a=1&b=2"""
        return {'x': 1}
    import time, datetime, decimal

    # parameters nothing provides, with defaults of every sort (callables, sentinels, classes, bytes, sets, unprintable objects)
    def defaults_ep(request, clock=time.time, ttl=datetime.timedelta(seconds=5), marker=object(), kind=dict, raw=b'\xff\x00',
                    tags=frozenset(['a']), price=decimal.Decimal('1.10'), odd=ReprRaises('d'), plain='text', n=None):
        return Response('d')

    def defaults_kwonly(*, when=datetime.datetime(2020, 1, 2), fn=len, nan=float('nan'), cplx=1j):
        return Response('k')

    def defaults_mixed(request, seg=None, zq9_unprovided=Ellipsis, also=(1, {2}, [b'x'])):
        return Response('x')
    routes = []
    first_res = (list(resources) or ['request'])[0]
    if not re.match(r'^[A-Za-z_][A-Za-z0-9_]*$', first_res):
        first_res = 'request'
    for i, e in enumerate(case['endpoints']):
        p = '/e%d' % i
        if e == 'func':
            routes.append((p, func))
        elif e == 'lambda':
            routes.append((p, lambda: Response('l')))
        elif e == 'method':
            routes.append((p, C().method))
        elif e == 'callable':
            routes.append((p, C()))
        elif e == 'static':
            routes.append((p, C.sm))
        elif e == 'classm':
            routes.append((p, C.cm))
        elif e == 'decorated':
            routes.append((p, clastic_decorator(deco)(func)))
        elif e == 'defaults':
            routes.append((p, defaults_ep))
        elif e == 'defaults-kwonly':
            routes.append((p, defaults_kwonly))
        elif e == 'defaults-mixed':
            routes.append((p + '/<seg?>', defaults_mixed))
        elif e == 'builtin':
            routes.append((p, sum, render_basic))
        elif e == 'uses-resource':
            ns = {'Response': Response}
            exec('def ep(%s):\n    return Response("r")\n' % first_res, ns)
            routes.append((p + '/<seg?>', ns['ep']))
        else:
            routes.append((p, doc_ep, render_basic))
    here = os.path.dirname(os.path.abspath(__file__))
    if case['static']:
        routes.append(('/static', StaticApplication(here)))
        routes.append(StaticFileRoute('/thisfile', os.path.abspath(__file__)))
    # a resource value that is a callable object is *also* routed as an endpoint: one object in two roles - whatever the
    # routes section says about the endpoint must not say what the resources section redacts (round 14)
    for i, (name, kind) in enumerate(case['resources']):
        if kind == 'reprobj' and name in tokens:
            routes.append(('/zq-dual-%d' % i, resources[name]))
    if case['subapp']:
        sub_res = {'sub_secret': 'SUBTOKzq9-sub-secret-value', 'sub_plain': 'sub plain value'} if case['subapp'] == 'with-resources' else {}
        routes.append(('/sub', Application([('/x', func), ('/y/<z>', lambda z: Response(z))], resources=sub_res)))

    class Custom(Middleware):
        provides = ('custom_val',)

        def __init__(self):
            self.password = 'not-shown'

        def request(self, next, request):
            return next(custom_val=1)
    class BadReprMW(Middleware):
        def request(self, next):
            return next()

        def __repr__(self):
            raise RuntimeError()

    class SetProvides(Middleware):
        provides = frozenset(['lang', 'region'])     # any iterable of names is legal

        def request(self, next):
            return next(lang='en', region='eu')

    class ListProvides(Middleware):
        provides = ['as_list']
        endpoint_provides = {'ep_set'}

        def request(self, next):
            return next(as_list=1)

        def endpoint(self, next):
            return next(ep_set=2)
    class SubCookie(SignedCookieMiddleware):
        """an application's own flavour of the signed cookie: a subclass that defines nothing about its representation"""
        extra_setting = 'visible-setting'
    mws = []
    for m in case['mws']:
        mws.append({'cookie': lambda: SignedCookieMiddleware(secret_key=KEY),
                    'cookie-sub': lambda: SubCookie(arg_name='subsess', cookie_name='subsid', secret_key=KEY + '-3'),
                    'cookie-named': lambda: SignedCookieMiddleware(arg_name='sess', cookie_name='sid', secret_key=KEY + '-2'),
                    'gzip': lambda: GzipMiddleware(), 'stats': lambda: StatsMiddleware(), 'getparam': lambda: GetParamMiddleware(['q']),
                    'ctx': lambda: SimpleContextProcessor('extra'), 'custom': lambda: Custom(),
                    'set-provides': lambda: SetProvides(), 'list-provides': lambda: ListProvides(), 'bad-repr': lambda: BadReprMW()}[m]())
    mount = case['mount']
    meta_entry = (mount, MetaApplication())
    depth = case['depth']
    if depth == 0:
        routes.append(meta_entry)
        prefix = mount
    else:
        inner = Application([meta_entry])
        prefix = mount
        for d in range(depth):
            pfx = '/lvl%d' % d
            if d == depth - 1:
                routes.append((pfx, inner))
            else:
                inner = Application([(pfx, inner)])
            prefix = pfx + prefix if d == depth - 1 else prefix
        # prefix = /lvl(depth-1) [+ /lvl(depth-2) ...] + mount, outermost first
        prefix = ''.join('/lvl%d' % d for d in range(depth - 1, -1, -1)) + mount
    app = Application(routes, resources=resources, middlewares=mws, debug=case['debug'])
    return app, prefix.rstrip('/'), tokens


def flatten_json(o, out):
    if isinstance(o, dict):
        for k, v in o.items():
            out.append(str(k))
            flatten_json(v, out)
    elif isinstance(o, list):
        for v in o:
            flatten_json(v, out)
    else:
        out.append(str(o))


def body(case, ctx):
    rc = case
    try:
        app, prefix, tokens = build(case)
    except Exception as e:
        # a host application that cannot be constructed is not a case (e.g. resource/provides conflicts)
        ctx.event('host-not-constructible')
        return
    secrets = dict((n, t) for n, (t, k) in tokens.items() if 'secret' in n)
    plain = dict((n, (t, k)) for n, (t, k) in tokens.items() if 'secret' not in n)
    # a resource whose repr fails makes the resources section itself uncomputable (reported inline, visibility not demanded);
    # a failure in a *sibling* section (a middleware with a failing repr) must not take the resources section with it
    repr_fails = any(k.startswith('reprraises') for n, (t, k) in tokens.items())
    sibling_fails = 'bad-repr' in case['mws']
    forbidden = [t for t in secrets.values()] + [KEY]
    views = {}
    for view, path in (('html', prefix + '/'), ('json', prefix + '/json/')):
        r = call(app, path, headers={'Accept': 'text/html'})
        ctx.requests += 1
        what = 'GET %s (%s view), resources %r' % (path, view, [(n, k) for n, (t, k) in tokens.items()])
        if r.exc is not None or r.status != 200:
            ctx.mismatch('meta-not-200', '%s: status %s %r %r' % (what, r.status, r.exc, r.body[:150]), rc)
            return
        text = r.body.decode('utf8', 'replace')
        hay = [text, html.unescape(text), html.unescape(html.unescape(text))]
        if view == 'json':
            try:
                doc = json.loads(text)
            except ValueError as e:
                ctx.mismatch('meta-json-invalid', '%s: %s' % (what, e), rc)
                return
            flat = []
            flatten_json(doc, flat)
            hay.append('\n'.join(flat))
            views['json'] = doc
        for tok in forbidden:
            if any(tok in h for h in hay):
                ctx.mismatch('secret-leaked', '%s: the value of a secret resource / the cookie signing key appears in the %s view' % (what, view), rc)
                return
        views[view + '-text'] = hay[1]
    if not repr_fails:
        # visibility clauses, read without assuming the JSON document's layout: every key/value pair anywhere in it
        pairs = []

        def walk(o):
            if isinstance(o, dict):
                vals = list(o.values())
                strs = [v for v in vals if isinstance(v, str)]
                for a in strs:
                    for b in strs:
                        if a is not b:
                            pairs.append((a, b))
                for v in vals:
                    walk(v)
            elif isinstance(o, list):
                for v in o:
                    walk(v)
        walk(views['json'])
        flat = []
        flatten_json(views['json'], flat)
        for n in secrets:
            marked = [b for a, b in pairs if a == n]
            if n not in flat:
                ctx.mismatch('secret-not-listed', 'secret resource %r is not listed in the JSON view at all' % n, rc)
                return
            if not any('REDACTED' in b.upper() or b in ('***', '<redacted>', '') for b in marked):
                ctx.mismatch('secret-not-marked', 'secret resource %r is listed next to %r instead of a redaction marker' % (n, marked[:2]), rc)
                return
            if n not in views['html-text'] or 'REDACTED' not in views['html-text'].upper():
                ctx.mismatch('secret-not-marked-html', 'secret resource %r / redaction marker missing from the HTML view' % n, rc)
                return
        for n, (tok, kind) in plain.items():
            shown = [b for a, b in pairs if a == n]
            if n not in flat or (kind in ('str', 'list', 'tuple', 'reprobj', 'set') and not any(tok in b for b in shown)):
                ctx.mismatch('plain-resource-hidden', 'non-secret resource %r (%s) is listed next to %r' % (n, kind, shown[:2]), rc)
                return
            if n not in views['html-text']:
                ctx.mismatch('plain-resource-hidden-html', 'non-secret resource %r missing from the HTML view' % n, rc)
                return
    ctx.event('depth-%d' % case['depth'])
    if repr_fails:
        ctx.event('repr-fails')
    if sibling_fails:
        ctx.event('sibling-section-fails' + ('' if repr_fails else '-resources-checked'))
    if (secrets and plain) or repr_fails or sibling_fails:
        ctx.nt(rc, sample=len(ctx.samples) < 3)


def shards(tier, seed):
    n = 60 if tier == 'quick' else 2000
    return [{'n': n} for _ in range(16)] + [{'part': 'dual'}]


def dual_cases():
    """complete: every secret name x mount x depth - a secret and a plain resource whose values are callable objects with a
    telling repr, both routed as endpoints as well"""
    return [{'resources': [[name, 'reprobj'], ['db', 'reprobj'], ['motd', 'str']], 'endpoints': ['callable', 'func'], 'static': False,
             'subapp': None, 'mws': [], 'mount': mount, 'depth': depth, 'debug': False}
            for name in NAMES_SECRET for mount in ('/meta', '/', '/a/b/meta') for depth in (0, 2)]


def run_shard(spec, ctx):
    if spec.get('part') == 'dual':
        ctx.exhaustive = True
        ctx.loop(dual_cases(), body, kind='host', max_sigs=6)
        return
    ctx.hyp(strategy(), body, spec['n'], kind='host')


def replay(case, kind, ctx):
    body(case, ctx)
