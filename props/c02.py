"""C02 - each injected argument comes from its one declared source.  Oracle: M1 sources, by identity,
plus a static check of the generated chain code (all-requests argument)."""
import ast, gc, inspect, linecache, types
from vlib import inject as I, injcheck as J
from props import c01

INFO = {
    'level': 'exploration',
    'rule': ('accepted G1 configurations (1-2 application levels so that the serving application\'s resource '
             'precedence is exercised) x 2 consecutive requests + unknown path + wrong method; every recorded call\'s '
             'arguments are compared by identity with M1\'s source (URL value, resource object, built-in, value handed '
             'to next() in this request, own default); shards run under different PYTHONHASHSEEDs. Non-trivial = some '
             'function receives >=2 different source kinds, or a defaulted parameter has an available source, or the '
             'provided values of two requests differ; distinct configurations counted.'),
    'assumptions': ['names defined by two non-serving levels are not generated (no documented precedence)',
                    'static part parses the generated chain sources found in linecache; if none are found it is skipped and noted'],
}


def strategy():
    from vlib import gen_config as G
    from hypothesis import strategies as st
    # positional-only parameters are excluded by construction: accepted-then-TypeError is recorded under C01 (D2)
    return st.one_of(G.config(max_levels=1, free_p=0.04, posonly=False, perturb=False), G.config(max_levels=2, free_p=0.04, posonly=False, perturb=False))


def chain_functions(root, limit=20000):
    """generated chain functions reachable from an application object (no attribute names assumed)"""
    seen, out, todo = set(), [], [root]
    while todo and len(seen) < limit:
        o = todo.pop()
        if id(o) in seen:
            continue
        seen.add(id(o))
        if isinstance(o, types.FunctionType):
            if o.__code__.co_filename.startswith('<sinter generated'):
                out.append(o)
                todo.append(o.__globals__.get('funcs'))
                todo.extend(v for v in o.__globals__.values() if isinstance(v, types.FunctionType) and
                            v.__code__.co_filename.startswith('<sinter generated'))
            continue
        if isinstance(o, (types.ModuleType, type, str, bytes, int, float)) or o is None:
            continue
        if isinstance(o, types.MethodType):
            todo.append(o.__func__)
            todo.append(o.__self__)
            continue
        try:
            todo.extend(gc.get_referents(o))
        except Exception:
            pass
    return out


def static_check(ctx, rc, root):
    """every call funcs[i](k=v, ...) in generated code: k == v, k declared by funcs[i], v bound by an enclosing def"""
    found = 0
    for fn in chain_functions(root):
        fname = fn.__code__.co_filename
        funcs = fn.__globals__.get('funcs')
        entry = linecache.cache.get(fname)
        if funcs is None or not entry or fn.__globals__.get(fn.__name__) is not fn:
            continue
        src = ''.join(entry[2])
        try:
            tree = ast.parse(src)
        except SyntaxError:
            continue
        found += 1

        def walk(node, bound):
            if isinstance(node, ast.FunctionDef):
                b2 = set(bound) | {a.arg for a in node.args.args + node.args.kwonlyargs} | {node.name}
                for ch in node.body:
                    walk(ch, b2)
                return
            if isinstance(node, ast.Call) and isinstance(node.func, ast.Subscript) and \
                    isinstance(node.func.value, ast.Name) and node.func.value.id == 'funcs':
                idx = node.func.slice.value if isinstance(node.func.slice, ast.Constant) else None
                target = funcs[idx] if idx is not None and idx < len(funcs) else None
                declared = None
                if target is not None:
                    try:
                        declared = set(inspect.signature(target).parameters)
                    except (TypeError, ValueError):
                        declared = None
                if node.args:
                    ctx.mismatch('static-positional-arg', 'generated call passes positional arguments: %s' % ast.dump(node)[:200], rc)
                for kw in node.keywords:
                    v = kw.value.id if isinstance(kw.value, ast.Name) else None
                    if kw.arg != v:
                        ctx.mismatch('static-cross-wired', 'generated code passes %s=%s' % (kw.arg, v), rc)
                    if v not in bound:
                        ctx.mismatch('static-unbound', 'generated code passes %s which no enclosing def binds' % v, rc)
                    if declared is not None and kw.arg not in declared:
                        ctx.mismatch('static-undeclared', 'generated code passes %s to %r which declares %s'
                                     % (kw.arg, target, sorted(declared)), rc)
            for ch in ast.iter_child_nodes(node):
                walk(ch, bound)
        walk(tree, set())
    return found


_count = [0]


def body(cfg, ctx):
    if cfg['route'].get('url') and not cfg['route'].get('methods'):
        # deterministic in the case: every second configuration with URL bindings gets a skipped look-alike route in front
        import json as _json
        if len(_json.dumps(cfg, sort_keys=True)) % 2 == 0:
            cfg = dict(cfg, decoy=True)
            ctx.event('with-skipped-lookalike-route')
    import json as _json
    if len(_json.dumps(cfg, sort_keys=True)) % 3 == 0:
        # every third configuration: the Route (and every inner application) was bound somewhere else before
        cfg = dict(cfg, prebound=True)
    try:
        plan = I.predict(cfg)
    except I.Reject:
        ctx.event('rejected-by-model(skipped)')
        return
    try:
        built = I.build(cfg)
        if getattr(built, 'prebound', 0):
            ctx.event('bound-elsewhere-before')
    except Exception as e:
        ctx.event('rejected-by-clastic(skipped; C01 decides)')
        return
    ctx.event('accepted')
    ctx.event('levels-%d' % len(cfg['levels']))
    obs = J.serve(ctx, cfg, built, plan, cfg, sources=True, n_requests=2)
    _count[0] += 1
    n = static_check(ctx, cfg, built.app)
    ctx.event('static-chains-parsed', n)
    if not n:
        ctx.event('static-part-skipped')
        ctx.note('no generated chain sources found for some configurations: static part skipped there')
    view = plan.route
    nt = obs.get('provided_differs', False)
    for fid, kinds in obs.get('kinds', {}).items():
        if len(kinds - {'default'}) >= 2:
            nt = True
        try:
            sig = view.sig_of(fid)
        except KeyError:
            continue
        for n_, k_, d_ in I.norm_sig(sig or []):
            if d_ and view.source(fid, n_)[0] != 'default':
                nt = True
                ctx.event('defaulted-param-with-source')
    shared = [n for n, o in view.res_owner.items() if len(o) > 1]
    if shared:
        ctx.event('resource-shared-with-serving-app')
    if nt:
        ctx.nt(cfg, sample=len(ctx.samples) < 3)
    del built
    if _count[0] % 50 == 0:
        gc.collect()


def shards(tier, seed):
    n = 250 if tier == 'quick' else 12000
    return [{'n': n} for _ in range(16)]


def url_lists_are_fresh(case, ctx):
    """multi-segment URL values are lists: every request gets its own, freshly converted one - also when an earlier request
    for the very same path changed the list it was handed (two requests never share a URL value)"""
    from clastic import Application, Route, Response, Middleware
    from vlib.wsgi import call
    seen = []

    class Tagger(Middleware):
        def request(self, next, parts):
            seen.append(('mw', list(parts) if parts is not None else None))
            if isinstance(parts, list):
                parts.append('zq9-added-by-middleware')
            return next()

    def ep(parts):
        seen.append(('ep', list(parts) if parts is not None else None))
        if isinstance(parts, list):
            parts.insert(0, 'zq9-added-by-endpoint')
            parts.pop()
        return Response('ok')
    pattern, path, conv, mode = case['pattern'], case['path'], case['conv'], case['mode']
    app = Application([Route(pattern, ep, middlewares=[Tagger()])], slash_mode=mode)
    segs = [s for s in path.split('/')[2:] if s]
    want = [int(x) for x in segs] if conv == 'int' else segs
    for k in range(4):
        del seen[:]
        r = call(app, path)
        ctx.requests += 1
        if r.exc is not None or r.status != 200:
            ctx.mismatch('request-status', 'GET %s (request %d on %s): %s %r' % (path, k + 1, pattern, r.status, r.exc), case)
            return
        exp = [('mw', want), ('ep', want + ['zq9-added-by-middleware'])]       # within one request the value is one object
        if seen != exp:
            ctx.mismatch('wrong-source-url', 'GET %s, request %d for this path on %s (%s): functions were handed %r, expected %r - '
                         'a URL value of an earlier request came back' % (path, k + 1, pattern, mode, seen, exp), case)
            return
    ctx.event('url-list-freshness')
    ctx.nt(['url-lists', case['pattern'], case['path'], case['mode']], sample=False)


def run_shard(spec, ctx):
    ctx.extra['hashseeds'] = 0
    if ctx.shard == 0:
        for mode in ('strict', 'redirect', 'rewrite'):
            for pattern, path, conv in (('/m/<parts+>', '/m/a/b/c', 'str'), ('/o/<parts*>', '/o', 'str'), ('/o/<parts*>', '/o/x', 'str'),
                                        ('/i/<parts+int>', '/i/1/2', 'int'), ('/f/<parts*>/', '/f/', 'str'), ('/f/<parts*>/', '/f/p/q/', 'str')):
                case = {'kind': 'url-lists', 'pattern': pattern, 'path': path, 'conv': conv, 'mode': mode}
                ctx.case(case)
                try:
                    url_lists_are_fresh(case, ctx)
                except Exception as e:
                    ctx.classify_exc(e, case, 'url-lists')
    ctx.hyp(strategy(), body, spec['n'], kind='cfg')
    import os
    ctx.note('PYTHONHASHSEED=%s in shard %d' % (os.environ.get('PYTHONHASHSEED'), ctx.shard))


def replay(case, kind, ctx):
    if isinstance(case, dict) and case.get('kind') == 'url-lists':
        url_lists_are_fresh(case, ctx)
        return
    body(case, ctx)
