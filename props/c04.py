"""C04 - name conflicts and reserved-name misuse are rejected at construction.
A valid configuration + exactly one injected fault; the fault matrix is enumerated completely on fixed base
shapes and crossed with Hypothesis-generated valid configurations."""
import copy, itertools
from vlib import inject as I, injcheck as J

INFO = {
    'level': 'fault_enumeration',
    'rule': ('valid configuration + one injected fault from the matrix {every ordered pair of distinct name sources '
             '(url, application/route/embedded-application resource, each built-in name, provides / endpoint_provides '
             '/ render_provides of an application-level, route-level or embedded-application middleware, same '
             'middleware twice, one tuple twice)} + {every reserved name as application/route/embedded resource or '
             'URL binding} + {next not first / missing per phase and placement, endpoint/render taking next (required '
             'or defaulted), context required in request phase / endpoint phase / endpoint - also for a function object that was validly bound '
             'in the render role before (history cells) - and a render_error requiring context}; the un-faulted '
             'configuration is the control and must construct and serve. The matrix is enumerated completely on 3 '
             'fixed base shapes (exhaustive for that sub-space) and sampled over generated valid configurations. '
             'Non-trivial = every distinct (fault, base) pair; cells hit are listed under classes.'),
    'exhaustive_scope': 'fault matrix x the fixed base shapes',
    'assumptions': ['same-kind overlaps (application resource vs route resource, outer vs inner application resource) are not conflicts and are not asserted',
                    'signature misuse must raise *some* exception at construction; conflicts and reserved names must raise NameError'],
}

WHERE = ['L0', 'R', 'L1']
LISTS = ['provides', 'endpoint_provides', 'render_provides']
PHASE_OF = {'provides': 'request', 'endpoint_provides': 'endpoint', 'render_provides': 'render'}


def sources():
    s = ['url', 'urlprefix', 'res:L0', 'res:R', 'res:L1']
    s += ['builtin:' + n for n in I.RESERVED]
    s += ['mw:%s:%s' % (w, pl) for w in WHERE for pl in LISTS]
    return s


def fault_matrix():
    out = []
    srcs = sources()
    for a, b in itertools.product(srcs, srcs):
        ka, kb = a.split(':')[0], b.split(':')[0]
        if ka == 'res' and kb == 'res':
            continue        # same-kind overlap: not a conflict
        if ka == 'builtin' and kb == 'builtin':
            continue
        if a == b and ka != 'mw':
            continue
        if ka in ('url', 'urlprefix') and kb in ('url', 'urlprefix'):
            continue        # duplicate binding is C05's InvalidPattern
        out.append({'f': 'conflict', 'a': a, 'b': b})
    for w in WHERE:
        for pl in LISTS:
            out.append({'f': 'dup-in-tuple', 'where': w, 'pl': pl})
            out.append({'f': 'same-mw-two-lists', 'where': w, 'pl': pl})
    for w in WHERE:
        for ph in ('request', 'endpoint', 'render'):
            out.append({'f': 'next-not-first', 'where': w, 'phase': ph})
            out.append({'f': 'no-next', 'where': w, 'phase': ph})
    for who in ('ep', 'rn'):
        for d in (False, True):
            out.append({'f': 'takes-next', 'who': who, 'default': d})
            out.append({'f': 'takes-next', 'who': who, 'default': d, 'pk': 'kw'})      # ... as a keyword-only parameter
    for w in WHERE:
        out.append({'f': 'context-required', 'who': 'mw-request', 'where': w})
        out.append({'f': 'context-required', 'who': 'mw-endpoint', 'where': w})
    out.append({'f': 'context-required', 'who': 'ep'})
    out.append({'f': 'context-required', 'who': 'ep', 'pk': 'kw'})
    for w in WHERE:
        out.append({'f': 'context-required', 'who': 'mw-request', 'where': w, 'pk': 'kw'})
        out.append({'f': 'context-required', 'who': 'mw-endpoint', 'where': w, 'pk': 'kw'})
    # the same misuse behind an outer function of the same phase that merely *accepts* context with a default
    for w in WHERE:
        for who in ('mw-request', 'mw-endpoint', 'ep'):
            out.append({'f': 'context-required-after-optional', 'who': who, 'where': w})
    for who in ('ep', 'rn'):
        for w in WHERE:
            out.append({'f': 'takes-next-after-optional', 'who': who, 'where': w})
            out.append({'f': 'takes-next-after-optional', 'who': who, 'where': w, 'pk': 'kw'})
    return out


BASES = [
    {'levels': [{'res': ['c'], 'prefix': '/s', 'mws': [
        {'tid': 0, 'unique': True, 'reorderable': True, 'style': 'method', 'provides': ['b'], 'endpoint_provides': [],
         'render_provides': [], 'request': [['c', 'pos', False]], 'endpoint': [['b', 'pos', True]], 'render': [['context', 'pos', False]]}]}],
     'route': {'res': ['d'], 'url': ['a'], 'mws': [
         {'tid': 1, 'unique': True, 'reorderable': True, 'style': 'func', 'provides': [], 'endpoint_provides': ['e'],
          'render_provides': [], 'request': [['a', 'pos', False]], 'endpoint': [], 'render': None}],
         'ep': [['a', 'pos', False], ['b', 'pos', False], ['c', 'kw', False], ['d', 'pos', True], ['e', 'pos', False]],
         'ep_kind': 'func', 'rn': [['context', 'pos', False], ['request', 'pos', False]], 'rn_kind': 'method', 'ep_returns': 'context'},
     'build': 'list'},
    {'levels': [{'res': [], 'prefix': '/s', 'mws': []},
                {'res': ['c'], 'prefix': '/in/', 'mws': [
                    {'tid': 2, 'unique': True, 'reorderable': True, 'style': 'func', 'provides': ['b'], 'endpoint_provides': [],
                     'render_provides': [], 'request': [], 'endpoint': None, 'render': None}]}],
     'route': {'res': [], 'url': [], 'mws': [], 'ep': [['b', 'pos', False], ['c', 'pos', False]], 'ep_kind': 'callable',
               'rn': None, 'ep_returns': 'response'},
     'build': 'add'},
    {'levels': [{'res': [], 'prefix': '/s', 'mws': []}],
     'route': {'res': [], 'url': [], 'mws': [], 'ep': [], 'ep_kind': 'lambda', 'rn': None, 'ep_returns': 'response'},
     'build': 'list'},
]


def _container(cfg, where):
    if where == 'R':
        return cfg['route']
    i = int(where[1:])
    while len(cfg['levels']) <= i:
        cfg['levels'].append({'res': [], 'mws': [], 'prefix': '/x%d' % len(cfg['levels'])})
    return cfg['levels'][i]


def _fresh_mw(tid, **kw):
    mw = {'tid': tid, 'unique': True, 'reorderable': True, 'style': 'func', 'provides': [], 'endpoint_provides': [],
          'render_provides': [], 'request': None, 'endpoint': None, 'render': None}
    mw.update(kw)
    return mw


def _used_names(cfg):
    used = set(cfg['route'].get('url') or []) | set(cfg['route'].get('res') or [])
    for lv in cfg['levels']:
        used |= set(lv.get('res') or [])
    for mw in I.all_mws(cfg):
        for _, pl in I.PHASES:
            used |= set(mw.get(pl) or ())
    return used


def _offer(cfg, src, name, slot, bare):
    kind = src.split(':')[0]
    if kind == 'url':
        cfg['route'].setdefault('url', [])
        cfg['route']['url'] = list(cfg['route']['url']) + [name]
    elif kind == 'urlprefix':
        # a URL binding carried by the prefix under which an application is embedded
        lv = _container(cfg, 'L1')
        lv['prefix'] = (lv.get('prefix') or '/s').rstrip('/') + '/<%s>' % name
    elif kind == 'res':
        c = _container(cfg, src.split(':')[1])
        c['res'] = list(c.get('res') or []) + [name]
    elif kind == 'mw':
        _, where, pl = src.split(':')
        c = _container(cfg, where)
        mw = _fresh_mw(20 + slot)
        mw[pl] = [name]
        if not bare:
            mw[PHASE_OF[pl]] = []
        c['mws'] = list(c.get('mws') or []) + [mw]
    # builtin: nothing to add


def apply_fault(base, fault, bare=False):
    cfg = copy.deepcopy(base)
    f = fault['f']
    if f == 'conflict':
        a, b = fault['a'], fault['b']
        builtin = [s for s in (a, b) if s.startswith('builtin:')]
        name = builtin[0].split(':')[1] if builtin else 'q'
        if name == 'q' and 'q' in _used_names(cfg):
            return None
        _offer(cfg, a, name, 0, bare)
        _offer(cfg, b, name, 1, bare)
    elif f in ('dup-in-tuple', 'same-mw-two-lists'):
        c = _container(cfg, fault['where'])
        mw = _fresh_mw(20)
        if f == 'dup-in-tuple':
            mw[fault['pl']] = ['q', 'q']
        else:
            other = LISTS[(LISTS.index(fault['pl']) + 1) % 3]
            mw[fault['pl']] = ['q']
            mw[other] = ['q']
        if not bare:
            mw[PHASE_OF[fault['pl']]] = []
        c['mws'] = list(c.get('mws') or []) + [mw]
    elif f in ('next-not-first', 'no-next'):
        c = _container(cfg, fault['where'])
        mw = _fresh_mw(20)
        mw[fault['phase']] = [['request', 'pos', False]]
        mw['flags'] = {fault['phase']: f}
        c['mws'] = list(c.get('mws') or []) + [mw]
    elif f == 'takes-next':
        who = fault['who']
        if who == 'rn' and cfg['route'].get('rn') is None:
            cfg['route']['rn'] = [['context', 'pos', False]]
            cfg['route']['ep_returns'] = 'context'
        cfg['route'][who] = list(cfg['route'][who]) + [['next', fault.get('pk', 'pos'), fault['default']]]
    elif f == 'context-required-after-optional':
        who = fault['who']
        phase = 'request' if who == 'mw-request' else 'endpoint'
        c = _container(cfg, fault['where'])
        outer = _fresh_mw(21)
        outer[phase] = [['context', 'pos', True]]
        c['mws'] = [outer] + list(c.get('mws') or [])
        if who == 'ep':
            cfg['route']['ep'] = list(cfg['route']['ep']) + [['context', 'pos', False]]
        else:
            inner = _fresh_mw(20)
            inner[phase] = [['context', 'pos', False]]
            c['mws'] = list(c['mws']) + [inner]
    elif f == 'takes-next-after-optional':
        who = fault['who']
        c = _container(cfg, fault['where'])
        outer = _fresh_mw(21)
        outer['endpoint' if who == 'ep' else 'render'] = [['request', 'pos', True]]
        c['mws'] = [outer] + list(c.get('mws') or [])
        if who == 'rn' and cfg['route'].get('rn') is None:
            cfg['route']['rn'] = [['context', 'pos', False]]
            cfg['route']['ep_returns'] = 'context'
        cfg['route'][who] = list(cfg['route'][who]) + [['next', fault.get('pk', 'pos'), False]]
    elif f == 'context-required':
        who = fault['who']
        if who == 'ep':
            cfg['route']['ep'] = list(cfg['route']['ep']) + [['context', fault.get('pk', 'pos'), False]]
        else:
            c = _container(cfg, fault['where'])
            mw = _fresh_mw(20)
            mw['request' if who == 'mw-request' else 'endpoint'] = [['context', fault.get('pk', 'pos'), False]]
            c['mws'] = list(c.get('mws') or []) + [mw]
    return cfg


def check_fault(ctx, base, fault, bare, rc):
    cfg = apply_fault(base, fault, bare)
    if cfg is None:
        return
    try:
        I.predict(cfg)
        raise AssertionError('harness: model does not reject injected fault %r' % (fault,))
    except I.Reject as r:
        rej = r
    try:
        I.build(cfg)
        exc = None
    except Exception as e:
        exc = e
    cell = fault['f'] + ':' + ':'.join(str(fault[k]) for k in sorted(fault) if k != 'f')
    ctx.event('fault-' + fault['f'])
    if exc is None:
        ctx.mismatch('accepted:' + _sigcell(fault), 'fault %r (%s) was not rejected at construction' % (fault, rej), rc)
        return
    if rej.kind in ('conflict', 'reserved') and fault['f'] in ('conflict', 'dup-in-tuple', 'same-mw-two-lists'):
        if not isinstance(exc, NameError):
            ctx.mismatch('not-NameError:' + _sigcell(fault), 'fault %r raised %r, expected NameError' % (fault, exc), rc)
            return
    ctx.nt([cell, bare, I_hash(base)], sample=False)
    if len(ctx.samples) < 4 and ctx.evaluations % 97 == 0:
        ctx.samples.append({'fault': fault, 'raised': type(exc).__name__, 'base_route': base['route'].get('ep')})


def _sigcell(fault):
    if fault['f'] == 'conflict':
        return 'conflict:%s+%s' % (fault['a'].split(':')[0], fault['b'].split(':')[0])
    return fault['f']


def I_hash(base):
    from vlib.shard import chash
    return chash(base)


def control(ctx, base, rc):
    try:
        plan = I.predict(base)
    except I.Reject:
        return False
    try:
        built = I.build(base)
    except Exception as e:
        if plan.cyclic or I.has_posonly(base):
            return False
        ctx.mismatch('control-rejected', 'valid configuration rejected: %r' % e, rc)
        return False
    J.serve(ctx, base, built, plan, rc)
    return True


def render_error_cells(ctx):
    """the error path is a function outside the render phase too: a render_error that requires `context` - given through
    the error handler (at construction or set later), on a Route, or on an embedded application - is rejected when the
    application is constructed; the same function without that parameter is accepted (control)"""
    from clastic import Application, Route, Response, SubApplication
    from clastic.errors import ErrorHandler

    def ep():
        return Response('ok')
    for form in ('pos', 'kwonly', 'control'):
        ns = {}
        sig = {'pos': 'request, _error, context', 'kwonly': 'request, _error, *, context', 'control': 'request, _error'}[form]
        exec('def render_error(%s, **kwargs):\n    return _error\n' % sig, ns)
        exec('def method_render_error(self, %s, **kwargs):\n    return _error\n' % sig, ns)
        H = type('ZqHandler_' + form, (ErrorHandler,), {'render_error': ns['method_render_error']})
        builders = {
            'handler': lambda: Application([Route('/x', ep)], error_handler=H()),
            'handler-set-later': lambda: Application([Route('/x', ep)]).set_error_handler(H()),
            'route': lambda: Application([Route('/x', ep, render_error=ns['render_error'])]),
            'route-added': lambda: Application().add(Route('/x', ep, render_error=ns['render_error'])),
            'embedding-handler': lambda: Application([SubApplication('/s', Application([Route('/x', ep)]))], error_handler=H()),
        }
        for via, make in sorted(builders.items()):
            case = {'base': 'render-error', 'fault': {'f': 'context-required', 'who': 'render-error', 'via': via, 'form': form}}
            ctx.case(case)
            try:
                make()
                exc = None
            except Exception as e:
                exc = e
            if form == 'control':
                if exc is not None:
                    ctx.mismatch('control-rejected', 'a render_error without `context` (%s) was rejected: %r' % (via, exc), case)
                continue
            ctx.event('fault-context-required-render-error')
            if exc is None:
                ctx.mismatch('accepted:context-required-render-error', 'a render_error requiring `context` (%s, %s parameter) was not rejected at construction'
                             % (via, form), case)
            elif not isinstance(exc, (NameError, TypeError)):
                ctx.mismatch('not-NameError:context-required-render-error', 'a render_error requiring `context` (%s) raised %r' % (via, exc), case)
            else:
                ctx.nt(['render-error', via, form], sample=False)


def reuse_cells(ctx):
    """history: the very function object was bound before in a role where its parameter is legitimate (render function /
    render-phase hook taking `context`); declaring it afterwards in a role where the parameter is misuse - in another
    application, in the same one through add(), or next to the valid use in one list - is rejected all the same"""
    from clastic import Application, Route, Response, Middleware

    def fresh():
        def produce():
            return {'answer': 42}

        def show(context):
            return Response(repr(context))

        def show_kw(*, context):
            return Response(repr(context))

        def hook(next, context):
            return next()
        return produce, show, show_kw, hook

    def mw_with(**funcs):
        return type('ZqReuseMW', (Middleware,), {k: staticmethod(v) for k, v in funcs.items()})()

    def plain():
        return Response('ok')
    for form in ('pos', 'kwonly'):
        for via in ('other-application', 'same-application-add', 'same-list', 'hook-as-request', 'hook-as-endpoint', 'control-fresh'):
            case = {'base': 'reuse', 'fault': {'f': 'context-required', 'who': 'reused-function', 'via': via, 'form': form}}
            ctx.case(case)
            produce, show, show_kw, hook = fresh()
            f = show if form == 'pos' else show_kw
            try:
                if via == 'control-fresh':
                    app1 = None
                elif via.startswith('hook'):
                    app1 = Application([Route('/r', produce, render=f, middlewares=[mw_with(render=hook)])])
                else:
                    app1 = Application([Route('/r', produce, render=f)])
                if app1 is not None:
                    from vlib.wsgi import call
                    r = call(app1, '/r')
                    ctx.requests += 1
                    if r.status != 200 or b'42' not in r.body:
                        ctx.mismatch('control-rejected', 'valid use of a render function taking context answered %s %r' % (r.status, r.body[:60]), case)
                        continue
            except Exception as e:
                ctx.mismatch('control-rejected', 'valid use of a render function / render hook taking context was rejected: %r' % e, case)
                continue
            try:
                if via in ('other-application', 'control-fresh'):
                    Application([Route('/e', f)])
                elif via == 'same-application-add':
                    app1.add(Route('/e', f))
                elif via == 'same-list':
                    Application([Route('/r', produce, render=f), Route('/e', f)])
                elif via == 'hook-as-request':
                    Application([Route('/e', plain, middlewares=[mw_with(request=hook)])])
                else:
                    Application([Route('/e', plain, middlewares=[mw_with(endpoint=hook)])])
                exc = None
            except Exception as e:
                exc = e
            ctx.event('fault-context-required-reused-function')
            if exc is None:
                ctx.mismatch('accepted:context-required-reused-function', 'a function requiring `context`, validly bound as render function / '
                             'render hook before, was accepted as %s (%s, %s parameter)' % ('endpoint' if not via.startswith('hook') else via[8:] + ' hook', via, form), case)
            elif not isinstance(exc, (NameError, TypeError)):
                ctx.mismatch('not-NameError:context-required-reused-function', '%s raised %r' % (via, exc), case)
            else:
                ctx.nt(['reuse', via, form], sample=False)


def factory_render_cells(ctx):
    """a render function is what the route ends up with - given as a callable, or made from a render *argument* by the
    application's render factory (its own application's, or the embedding one's): one that takes `next` is rejected at
    construction either way; the same without `next` is accepted and serves (control)"""
    from clastic import Application, Route, Response, SubApplication, Middleware
    from vlib.wsgi import call

    def produce():
        return {'answer': 42}

    class RenderMW(Middleware):
        def render(self, next, context):
            return next()
    sigs = {'pos': 'next, context', 'pos-default': 'context, next=None', 'kwonly': 'context, *, next', 'control': 'context'}
    for form, sig in sorted(sigs.items()):
        def factory(arg, sig=sig):
            ns = {'Response': Response}
            exec('def render(%s):\n    return Response("%%s|%%r" %% (%r, context))\n' % (sig, arg), ns)
            return ns['render']
        builders = {
            'own-factory': lambda: Application([Route('/x', produce, 'tmpl')], render_factory=factory),
            'own-factory-added': lambda: Application(render_factory=factory).add(Route('/x', produce, 'tmpl')) or None,
            'own-factory-render-mw': lambda: Application([Route('/x', produce, 'tmpl')], render_factory=factory, middlewares=[RenderMW()]),
            'embedding-factory': lambda: Application([SubApplication('/s', Application([Route('/x', produce, 'tmpl')]))], render_factory=factory),
            'embedding-factory-rebind': lambda: Application([SubApplication('/s', Application([Route('/x', produce, 'tmpl')], render_factory=lambda a: (lambda context: Response('inner'))),
                                                                          rebind_render=True)], render_factory=factory),
            'callable': lambda: Application([Route('/x', produce, factory('given'))]),
        }
        for via, make in sorted(builders.items()):
            case = {'base': 'factory-render', 'fault': {'f': 'takes-next', 'who': 'factory-render', 'via': via, 'form': form}}
            ctx.case(case)
            try:
                app = make()
                exc = None
            except Exception as e:
                app, exc = None, e
            if form == 'control':
                if exc is not None:
                    ctx.mismatch('control-rejected', 'a factory-made render without `next` (%s) was rejected: %r' % (via, exc), case)
                elif app is not None:
                    r = call(app, '/s/x' if via.startswith('embedding') else '/x')
                    ctx.requests += 1
                    if r.status != 200 or b'42' not in r.body:
                        ctx.mismatch('control-rejected', 'a factory-made render without `next` (%s) answered %s %r' % (via, r.status, r.body[:60]), case)
                continue
            ctx.event('fault-takes-next-factory-render')
            if exc is None:
                ctx.mismatch('accepted:takes-next-factory-render', 'a render function taking `next` (%s), %s, was not rejected at construction'
                             % (sig, 'given as a callable' if via == 'callable' else 'made by a render factory: ' + via), case)
            else:
                ctx.nt(['factory-render', via, form], sample=False)


def run_matrix(spec, ctx):
    matrix = fault_matrix()
    ctx.exhaustive = True
    if 0 in spec['bases']:
        try:
            render_error_cells(ctx)
        except Exception as e:
            ctx.classify_exc(e, {'base': 'render-error', 'fault': None}, 'matrix')
        try:
            reuse_cells(ctx)
        except Exception as e:
            ctx.classify_exc(e, {'base': 'reuse', 'fault': None}, 'matrix')
        try:
            factory_render_cells(ctx)
        except Exception as e:
            ctx.classify_exc(e, {'base': 'factory-render', 'fault': None}, 'matrix')
    ctx.note('fault matrix has %d cells x 2 (provider with / without its phase function) per base shape' % len(matrix))
    for bi in spec['bases']:
        base = BASES[bi]
        ctx.case({'base': bi, 'fault': None})
        assert control(ctx, base, {'base': bi, 'fault': None}), 'fixed base shape %d must be valid' % bi
        for fault in matrix:
            for bare in (False, True):
                case = {'base': bi, 'fault': fault, 'bare': bare}
                ctx.case(case)
                try:
                    check_fault(ctx, base, fault, bare, case)
                except Exception as e:
                    ctx.classify_exc(e, case, 'matrix')
    _dedupe(ctx)


def _dedupe(ctx):
    import json
    best = {}
    for v in ctx.violations:
        k = v['sig']
        if k not in best or len(json.dumps(v['case'], default=repr)) < len(json.dumps(best[k]['case'], default=repr)):
            best[k] = v
    ctx.violations = list(best.values())


def strategy():
    from vlib import gen_config as G
    from hypothesis import strategies as st
    m = fault_matrix()
    return st.tuples(st.one_of(G.config(max_levels=1, free_p=0.0, posonly=False), G.config(max_levels=2, free_p=0.0, posonly=False)),
                     st.integers(0, len(m) - 1), st.booleans())


def random_body(case, ctx):
    cfg, fi, bare = case
    fault = fault_matrix()[fi]
    rc = [cfg, fi, bare]
    ctx.current = rc
    if not control(ctx, cfg, rc):
        ctx.event('base-not-valid(skipped)')
        return
    check_fault(ctx, cfg, fault, bare, rc)


def shards(tier, seed):
    out = [{'part': 'matrix', 'bases': [i]} for i in range(len(BASES))]
    n = 120 if tier == 'quick' else 16000
    out += [{'part': 'random', 'n': n} for _ in range(13)]
    return out


def run_shard(spec, ctx):
    if spec['part'] == 'matrix':
        run_matrix(spec, ctx)
    else:
        ctx.hyp(strategy(), random_body, spec['n'], kind='random')


def replay(case, kind, ctx):
    if isinstance(case, dict) and case.get('base') == 'render-error':
        render_error_cells(ctx)
        return
    if isinstance(case, dict) and case.get('base') == 'reuse':
        reuse_cells(ctx)
        return
    if isinstance(case, dict) and case.get('base') == 'factory-render':
        factory_render_cells(ctx)
        return
    if kind == 'matrix' or isinstance(case, dict):
        base = BASES[case['base']]
        if case.get('fault'):
            check_fault(ctx, base, case['fault'], case.get('bare', False), case)
        else:
            control(ctx, base, case)
    else:
        random_body(case, ctx)
