"""C05 - URL patterns match exactly the paths their mini-language describes.

Oracle: vlib.urlmodel (M2).  Enumeration of every path up to a length bound over an
11-character alphabet for a catalogue of patterns x 3 slash modes, a segment-level
catalogue of numeric lexical forms, Hypothesis long random paths (also through a
real Application), and generated invalid patterns."""
import itertools, random, json
from vlib import urlmodel as U

INFO = {
    'level': 'exploration',
    'rule': ('(pattern, slash mode, path) triples: every path "/"+s, len(s)<=L over the alphabet '
             '"/ a B 1 0 . - + space e é", for every catalogue pattern in the 3 modes (exhaustive '
             'within that bound), plus numeric lexical forms x slash placements, plus Hypothesis random '
             'patterns/paths also driven through a real Application, plus invalid patterns. Non-trivial = '
             'the model or clastic matches, or the number of path segments is feasible for the pattern '
             '(so the decision rests on literal/type validity); counted as distinct triples.'),
    'exhaustive_scope': 'all paths up to the length bound for the listed patterns (enumeration shards only)',
    'assumptions': ['literal segments restricted to [A-Za-z0-9_-] (O1); no newline in paths (O3); '
                    'integers shorter than CPython\'s 4300-digit limit',
                    'when several assignments are valid the statement does not say which wins: any valid one is accepted'],
}

ALPHABET = ['/', 'a', 'B', '1', '0', '.', '-', '+', ' ', 'e', 'é']
LITS = ['a', '1', 'e', 'B', '-', '0']
NAMES = ['x', 'y', 'z', 'w']
BIND_MAIN = [(op, t) for op in ('', '?', '*', '+') for t in ('', 'int', 'float', 'str')]
BIND_ALT = [(':', ''), (':', 'int'), ('?', 'unicode'), (':', 'float'), ('*', 'unicode')]
LEXICAL = ['12', '-3', '+4', ' 5', '+ 5', '- 5', '1.5', '.5', '5.', '1e5', '1e+5', '-.5e-3', 'e5', '.', '-',
           '1E5', '1e', '1.e1', '0x1', '1_0', '00', '-0', '+.', ' ', '  7', '+  7', '1 ', 'inf', 'nan', '1.5.2',
           'a', '']


def el_text(e, i):
    if e[0] == 'l':
        return e[1]
    return '<%s%s%s>' % (NAMES[i], e[1], e[2])


def make_pattern(elems, branch):
    if not elems:
        return '/'
    return '/' + '/'.join(el_text(e, i) for i, e in enumerate(elems)) + ('/' if branch else '')


def all_elements():
    return [('l', l) for l in LITS[:3]] + [('b', op, t) for op, t in BIND_MAIN] + [('b', op, t) for op, t in BIND_ALT]


def catalogue(tier, seed):
    els = all_elements()
    pats = ['/']
    for e in els:
        for br in (False, True):
            pats.append(make_pattern([e], br))
    rng = random.Random(seed * 7919 + 5)
    main = [('l', l) for l in LITS] + [('b', op, t) for op, t in BIND_MAIN]
    n2, n3, n4 = (60, 40, 20) if tier == 'quick' else (500, 300, 150)
    seen = set(pats)
    for k, n in ((2, n2), (3, n3), (4, n4)):
        c = 0
        while c < n:
            p = make_pattern([rng.choice(main) for _ in range(k)], rng.random() < 0.4)
            if p not in seen:
                seen.add(p)
                pats.append(p)
                c += 1
    return pats


def shards(tier, seed):
    pats = catalogue(tier, seed)
    n = 16
    L = 4 if tier == 'quick' else 5
    out = [{'part': 'enum', 'patterns': pats[i::n], 'L': L} for i in range(n - 2)]
    out.append({'part': 'lexical', 'L': L})
    out.append({'part': 'random', 'n': 1500 if tier == 'quick' else 40000})
    if tier == 'thorough':
        out += [{'part': 'random', 'n': 40000, 'shard': 100 + i} for i in range(6)]
    return out


_apps = {}


def bound(pattern, mode):
    key = (pattern, mode)
    if key not in _apps:
        from clastic import Application, Route
        if len(_apps) > 5000:
            _apps.clear()
        # the mode arrives as configuration data would: an equal string, not the module's constant object
        given = mode.encode('ascii').decode('ascii')
        assert given == mode and given is not mode
        app = Application([Route(pattern, lambda: None)], slash_mode=given)
        _apps[key] = app.routes[0]
    return _apps[key]


def classify(parsed, mode, path):
    """signature of the *input* for known findings, else None"""
    els, branch = parsed
    if mode == U.STRICT and path == '/' and els and not branch and \
            all(e[0] == 'b' and e[2] in ('?', '*') for e in els):
        return 'strict-root-all-optional'
    if mode != U.STRICT and '//' in path and any(e[0] == 'b' and e[2] in ('*', '+') for e in els):
        return 'multi-binding-repeated-slash'
    typed = [e[3] for e in els if e[0] == 'b' and e[3] in ('int', 'float')]
    if typed:
        for s in path.split('/'):
            if any(U.regex_admits_but_not_literal(t, s) for t in typed):
                return 'sign-then-blank-numeric'
    return None


def d3_consistent(parsed, got, exp):
    """is the disagreement exactly the recorded one?  (empty pieces kept in a multi binding's list, or - for typed multi
    bindings - their conversion failing, while the model has a match)"""
    if not exp:
        return False
    if got is None:
        return any(e[0] == 'b' and e[2] in ('*', '+') and e[3] in ('int', 'float') for e in parsed[0])
    stripped = dict((k, [x for x in v if x != ''] if isinstance(v, list) else v) for k, v in got.items())
    return any(U.same_assignment(stripped, a) for a in exp)


def check_pair(ctx, pattern, parsed, mode, path, br=None):
    br = br or bound(pattern, mode)
    exp = U.match(parsed, mode, path)
    try:
        got = br.match_path(path)
    except Exception as e:
        # raising is never the recorded behaviour of any known finding: a failed conversion must make the route not match
        ctx.mismatch('match-raises', 'match_path(%r) on %r/%s raised %r' % (path, pattern, mode, e),
                     {'pattern': pattern, 'mode': mode, 'path': path})
        return False
    ok = (got is None and not exp) or (got is not None and any(U.same_assignment(got, a) for a in exp))
    nontriv = bool(exp) or got is not None
    if ok and got is not None and any(isinstance(v, list) for v in got.values()):
        # the values handed to a handler are its own: a handler that changes a list it was given must not change what the
        # next request for the same path is given
        before = dict((k, list(v) if isinstance(v, list) else v) for k, v in got.items())
        for v in got.values():
            if isinstance(v, list):
                v.append('zq9-left-behind-by-a-handler')
        again = br.match_path(path)
        if again != before:
            ctx.mismatch('match-not-pure', 'pattern %r mode %s path %r: matched %r; after the handler appended to its list values the same '
                         'path matches %r' % (pattern, mode, path, before, again), {'pattern': pattern, 'mode': mode, 'path': path})
            return nontriv
    if not ok:
        sig = classify(parsed, mode, path)
        if sig == 'multi-binding-repeated-slash' and not d3_consistent(parsed, got, exp):
            sig = None      # something other than the recorded empty-piece behaviour
        kind = 'missed-match' if got is None else ('spurious-match' if not exp else 'wrong-values')
        ctx.mismatch(sig or kind, 'pattern %r mode %s path %r: clastic %r, model %r' % (pattern, mode, path, got, exp[:3]),
                     {'pattern': pattern, 'mode': mode, 'path': path})
    return nontriv


def run_enum(spec, ctx):
    L = spec['L']
    paths = ['/' + ''.join(t) for n in range(L + 1) for t in itertools.product(ALPHABET, repeat=n)]
    segcount = {}
    for p in paths:
        segcount[p] = len([s for s in p.split('/') if s])
    ctx.exhaustive = True
    for pattern in spec['patterns']:
        parsed = U.parse(pattern)
        lo, hi = U.seg_range(parsed[0])
        for mode in U.MODES:
            br = bound(pattern, mode)
            nt = 0
            first = None

            def body(path, ctx, pattern=pattern, parsed=parsed, mode=mode, br=br):
                return check_pair(ctx, pattern, parsed, mode, path, br)
            for path in paths:
                ctx.evaluations += 1
                try:
                    m = check_pair(ctx, pattern, parsed, mode, path, br)
                except Exception as e:
                    ctx.classify_exc(e, {'pattern': pattern, 'mode': mode, 'path': path}, 'pair')
                    if len(ctx.violations) > 20:
                        return
                    break  # one violation per (pattern, mode) is enough; go on with the next
                if m or lo <= segcount[path] <= hi:
                    nt += 1
                    if m and first is None and len(path) > 2:
                        first = path
            ctx.nontrivial_disjoint += nt
            ctx.event('pattern-modes')
            if first and len(ctx.samples) < 3:
                ctx.samples.append({'pattern': pattern, 'mode': mode, 'path': first,
                                    'values': repr(br.match_path(first))})
    _dedupe(ctx)


def _dedupe(ctx):
    best = {}
    for v in ctx.violations:
        k = v['sig']
        if k not in best or len(json.dumps(v['case'])) < len(json.dumps(best[k]['case'])):
            best[k] = v
    ctx.violations = list(best.values())


def run_lexical(spec, ctx):
    """numeric lexical forms x slash placements x typed patterns"""
    pats = ['/<x:int>', '/<x:float>', '/<x?int>', '/<x*int>', '/<x+float>', '/<x:int>/', '/a/<x?float>',
            '/<x?int>/<y*>', '/<x*float>/<y?>', '/<x:int>/<y:float>', '/<x+int>/a', '/<x*int>/<y*float>/',
            '/<x?float>/<y?int>/<z?>']
    placements = ['/%s', '/%s/', '//%s', '/%s//', '/a/%s', '/%s/a', '/%s/%s', '/%s/1', '/1/%s', '/%s/1/', '/1//%s']
    for pattern in pats:
        parsed = U.parse(pattern)
        for mode in U.MODES:
            br = bound(pattern, mode)
            for lex in LEXICAL:
                for pl in placements:
                    path = pl.replace('%s', lex)
                    case = {'pattern': pattern, 'mode': mode, 'path': path}
                    ctx.case(case)
                    try:
                        if check_pair(ctx, pattern, parsed, mode, path, br):
                            ctx.nt(case, sample=len(ctx.samples) < 2)
                    except Exception as e:
                        ctx.classify_exc(e, case, 'pair')
    _dedupe(ctx)
    run_invalid(ctx)
    run_representatives(ctx)


def run_invalid(ctx):
    """the five rejection classes, generated around valid patterns"""
    from clastic import Route
    from clastic.route import InvalidPattern
    rng = random.Random(ctx.hseed(3))
    main = [('l', l) for l in LITS] + [('b', op, t) for op, t in BIND_MAIN]
    for i in range(400):
        els = [rng.choice(main) for _ in range(rng.randint(1, 4))]
        good = make_pattern(els, rng.random() < 0.5)
        kind = rng.choice(['noslash', 'dslash', 'dup', 'type', 'op', 'valid'])
        if kind == 'noslash':
            bad = good[1:] if len(good) > 1 else 'a'
            if bad.startswith('/'):
                continue
        elif kind == 'dslash':
            j = rng.choice([k for k, c in enumerate(good) if c == '/'])
            bad = good[:j] + '/' + good[j:]
        elif kind == 'dup':
            bad = good.rstrip('/') + '/<q>/<q%s>' % rng.choice(['', '?', '*int'])
        elif kind == 'type':
            bad = good.rstrip('/') + '/<q%s%s>' % (rng.choice([':', '?', '*', '+']), rng.choice(['bool', 'path', 'Int', 'x', 'integer']))
        elif kind == 'op':
            bad = good.rstrip('/') + '/<q%s%s>' % (rng.choice(['!', '**', '?*', '~', '-', '??', '::', '+?']), rng.choice(['', 'int']))
        else:
            bad = good
        case = {'pattern': bad, 'expect': 'valid' if kind == 'valid' else 'InvalidPattern', 'class': kind}
        ctx.case(case)
        try:
            U.parse(bad)
            model_ok = True
        except U.BadPattern:
            model_ok = False
        assert model_ok == (kind == 'valid'), (bad, kind)
        from clastic import Application
        # every way a Route is created from a pattern: the constructor, and the (pattern, endpoint) shorthand of an
        # application's route list and of add()
        ways = [('Route', lambda mode: Route(bad, lambda: None, slash_mode=mode)),
                ('Application([(pattern, endpoint)])', lambda mode: Application([(bad, lambda: None)], slash_mode=mode)),
                ('add((pattern, endpoint))', lambda mode: Application(slash_mode=mode).add((bad, lambda: None)))]
        for mode in U.MODES:
            for wname, way in (ways if i % 3 == 0 or mode == U.MODES[0] else ways[:1]):
                try:
                    way(mode)
                    got = True
                except InvalidPattern:
                    got = False
                except Exception as e:
                    ctx.record(_V('invalid-pattern-other-exception', '%s with %r (%s): %r instead of InvalidPattern' % (wname, bad, kind, e), case), 'invalid')
                    continue
                if got != model_ok:
                    ctx.record(_V('invalid-pattern-' + kind, '%s with %r %s, expected %s' % (wname, bad, 'accepted' if got else 'rejected', case['expect']), case), 'invalid')
        ctx.event('invalid-' + kind)
        if kind != 'valid':
            ctx.nt(case, sample=False)
    _dedupe(ctx)


def _V(sig, msg, case):
    from vlib.shard import Violation
    return Violation(sig, msg, case)


KNOWN_REPS = {
    'strict-root-all-optional': ('/<x?>', 'strict', '/'),
    'multi-binding-repeated-slash': ('/<x*int>', 'rewrite', '//1'),
    'sign-then-blank-numeric': ('/<x?int>/<y*>', 'rewrite', '/- 1'),
}


def run_representatives(ctx):
    """one live observation per recorded finding, so KNOWN-FINDING lines come from this run"""
    for sig, (pattern, mode, path) in KNOWN_REPS.items():
        if sig not in ctx.known_sigs:
            continue
        parsed = U.parse(pattern)
        before = ctx.known[sig]
        try:
            check_pair(ctx, pattern, parsed, mode, path)
        except Exception:
            pass
        if ctx.known[sig] == before:
            ctx.note('recorded finding %s no longer reproduces on its representative' % sig)


# ---------------------------------------------------------------- random part

def strategies():
    from hypothesis import strategies as st
    lit = st.text(alphabet='abAB01_-e', min_size=1, max_size=3)
    el = st.one_of(st.tuples(st.just('l'), lit),
                   st.tuples(st.just('b'), st.sampled_from(['', '?', '*', '+', ':']),
                             st.sampled_from(['', 'int', 'float', 'str', 'unicode'])))
    elems = st.lists(el, min_size=0, max_size=4)
    digits = st.text(alphabet='0123456789', min_size=1, max_size=30)
    num = st.one_of(
        st.builds(lambda s, d: s + d, st.sampled_from(['', '-', '+', ' ']), digits),
        st.builds(lambda s, a, b, e: s + a + '.' + b + e, st.sampled_from(['', '-', '+']),
                  st.text(alphabet='0123456789', max_size=6), st.text(alphabet='0123456789', max_size=6),
                  st.sampled_from(['', 'e5', 'E-3', 'e+10', 'e'])),
        st.sampled_from(LEXICAL[:30]),
        st.integers(min_value=1, max_value=4200).map(lambda n: '7' * n),
    )
    def clean(s):
        # '/' is the separator; newline is O3; non-ASCII *digits* are outside the quantifier's alphabet
        # (both \\d and float() accept them, the statement says nothing about them)
        return ''.join(c for c in s if c not in '/\n\r' and not (c.isdigit() and c not in '0123456789'))
    seg = st.one_of(lit, num, st.text(alphabet='ab1 .-+eé中%?#;=&', min_size=1, max_size=6),
                    st.text(min_size=1, max_size=8).map(clean).filter(bool))
    sep = st.sampled_from(['/', '/', '/', '//', '///'])
    def mk(segs, seps, lead, trail):
        out = lead
        for i, s in enumerate(segs):
            out += s + (seps[i] if i < len(seps) else '/')
        return (out.rstrip('/') + trail) or '/'
    path = st.builds(mk, st.lists(seg, max_size=8), st.lists(sep, max_size=8), st.sampled_from(['/', '/', '//']),
                     st.sampled_from(['', '/', '//']))
    return st.tuples(elems, st.booleans(), st.sampled_from(U.MODES), path, st.booleans())


def random_body(case, ctx):
    elems, branch, mode, path, via_app = case
    elems = [tuple(e) for e in elems]
    pattern = make_pattern([e if e[0] == 'l' else ('b', e[1], e[2]) for e in elems], branch)
    parsed = U.parse(pattern)
    if not path.startswith('/'):
        path = '/' + path
    c = {'pattern': pattern, 'mode': mode, 'path': path}
    ctx.current = [list(map(list, elems)), branch, mode, path, via_app]
    m = check_pair(ctx, pattern, parsed, mode, path)
    if m:
        ctx.nt(c, sample=len(ctx.samples) < 3)
        ctx.event('random-match')
    else:
        ctx.event('random-nomatch')
    if via_app:
        check_via_app(ctx, pattern, parsed, mode, path)


_REC = []


def check_via_app(ctx, pattern, parsed, mode, path):
    """the endpoint of a real Application receives the same values (or the request is a 404/redirect)"""
    from clastic import Application, Route, Response
    from vlib.wsgi import call
    names = [e[1] for e in parsed[0] if e[0] == 'b']
    ns = {'REC': _REC, 'Response': Response}
    exec('def ep(%s):\n    REC.append(dict(locals()))\n    return Response("ok")\n' % ', '.join(names), ns)
    app = Application([Route(pattern, ns['ep'])], slash_mode=mode)
    del _REC[:]
    try:
        path.encode('utf8')
    except UnicodeEncodeError:
        return
    r = call(app, path)
    ctx.requests += 1
    seen = '/' + path.lstrip('/')   # O11: werkzeug collapses leading slashes
    if classify(parsed, mode, seen):
        return
    exp = U.match(parsed, mode, seen)
    if r.exc is not None:
        ctx.mismatch('app-request-raises', 'GET %r on %r/%s raised %r' % (path, pattern, mode, r.exc))
        return
    if not exp:
        if r.status != 404 or _REC:
            ctx.mismatch('app-spurious-match', 'GET %r on %r/%s -> %s %r' % (path, pattern, mode, r.status, _REC))
        return
    if mode == U.REDIRECT and parsed[1] and U.normalize(seen, True) != seen:
        if r.status not in (301, 302, 303, 307, 308):
            ctx.mismatch('app-no-redirect', 'GET %r on %r/%s -> %s' % (path, pattern, mode, r.status))
        return
    if r.status != 200 or len(_REC) != 1 or not any(U.same_assignment(_REC[0], a) for a in exp):
        ctx.mismatch('app-wrong-values', 'GET %r on %r/%s -> %s endpoint got %r, model %r'
                     % (path, pattern, mode, r.status, _REC, exp[:3]))
    ctx.event('via-app-200')


def matching_path_strategy():
    """paths *constructed* to match a drawn pattern (then perturbed), so deep patterns are hit"""
    from hypothesis import strategies as st

    @st.composite
    def s(draw):
        elems = draw(st.lists(st.one_of(
            st.tuples(st.just('l'), st.text(alphabet='abAB01_-e', min_size=1, max_size=3)),
            st.tuples(st.just('b'), st.sampled_from(['', '?', '*', '+']), st.sampled_from(['', 'int', 'float', 'str']))),
            min_size=0, max_size=4))
        branch = draw(st.booleans())
        mode = draw(st.sampled_from(U.MODES))
        segs = []
        for e in elems:
            if e[0] == 'l':
                segs.append(e[1])
                continue
            k = {'': 1, '?': draw(st.integers(0, 1)), '*': draw(st.integers(0, 3)), '+': draw(st.integers(1, 3))}[e[1]]
            for _ in range(k):
                if e[2] == 'int':
                    segs.append(draw(st.sampled_from(['', '-', '+', ' '])) + str(draw(st.integers(0, 10 ** 12))))
                elif e[2] == 'float':
                    segs.append(draw(st.sampled_from(['1.5', '-2', '.5', '5.', '1e3', '+1.25E-2', ' 3.0', '0'])))
                else:
                    segs.append(draw(st.text(alphabet='ab1 .-+eé%', min_size=1, max_size=5)))
        pert = draw(st.sampled_from(['none', 'none', 'dslash', 'trail', 'notrail', 'drop', 'dup', 'junk']))
        if pert == 'drop' and segs:
            segs.pop(draw(st.integers(0, len(segs) - 1)))
        if pert == 'dup' and segs:
            i = draw(st.integers(0, len(segs) - 1))
            segs.insert(i, segs[i])
        if pert == 'junk' and segs:
            i = draw(st.integers(0, len(segs) - 1))
            segs[i] = segs[i] + draw(st.sampled_from(['x', ' ', '.', 'e', '-']))
        path = '/' + '/'.join(segs) + ('/' if branch and segs else '')
        if pert == 'dslash' and segs:
            i = draw(st.integers(0, path.count('/') - 1))
            idx = [k for k, c in enumerate(path) if c == '/'][i]
            path = path[:idx] + '/' + path[idx:]
        if pert == 'trail':
            path = path.rstrip('/') + '/'
        if pert == 'notrail':
            path = path.rstrip('/') or '/'
        return ([list(e) for e in elems], branch, mode, path, draw(st.booleans()))
    return s()


def run_random(spec, ctx):
    n = spec['n']
    ctx.hyp(strategies(), random_body, n // 2, kind='random', k=1)
    ctx.hyp(matching_path_strategy(), random_body, n - n // 2, kind='random', k=2)


def run_shard(spec, ctx):
    {'enum': run_enum, 'lexical': run_lexical, 'random': run_random}[spec['part']](spec, ctx)


def replay(case, kind, ctx):
    if kind == 'invalid':
        from clastic import Route
        from clastic.route import InvalidPattern
        for mode in U.MODES:
            try:
                Route(case['pattern'], lambda: None, slash_mode=mode)
                got = 'valid'
            except InvalidPattern:
                got = 'InvalidPattern'
            if got != case['expect']:
                ctx.mismatch('invalid-pattern-' + case.get('class', ''), 'Route(%r): %s, expected %s' % (case['pattern'], got, case['expect']))
        return
    if isinstance(case, dict):
        parsed = U.parse(case['pattern'])
        check_pair(ctx, case['pattern'], parsed, case['mode'], case['path'])
        check_via_app(ctx, case['pattern'], parsed, case['mode'], case['path'])
    else:
        random_body(case, ctx)
